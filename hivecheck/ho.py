"""HO — hash-order taint: no order-sensitive consumption of a hash-ordered collection.

Sources are typed by the project's own type checker (set / frozenset / AbstractSet / immutables.Map
and its views) plus a small table of untyped externals that return sets (h3.k_ring ...). From each
source the analysis follows the value through order-preserving wrappers, local variables, returned
values (to the callers) and arguments (into the callee's parameter uses) until it reaches either a
sanitiser (sorted with a total key, set/Map construction, len/any/all/in, min/max without key ...)
or an order-consuming use (iteration with a non-commutative body, reduce with a non-commutative
reducer, indexing, unpacking, next, min/max with a non-total key, join, float sum, storing the
sequence in a field ...). Everything it cannot classify is reported (fail closed) unless the symbol
is in the reasoned exception table.
"""
from __future__ import annotations

import ast
import re
from dataclasses import dataclass, field
from typing import Dict, List, Optional, Set, Tuple

from . import AnalysisError, PKG, flow
from .index import index, enclosing_func, in_pkg
from .loader import Repo, Func, parent, dotted

HASHY = re.compile(
    r"^(builtins\.)?(set|frozenset)\[|^typing\.(AbstractSet|Set|FrozenSet|MutableSet|KeysView|ValuesView|ItemsView)\[|"
    r"^immutables\.(_map\.)?Map\[|^immutables\._protocols\.Map(Keys|Values|Items|Mutation)\[|^builtins\.dict_(keys|values|items)\[|AbstractSet\["
)
# dict views are insertion ordered: only tainted when the dict itself was filled in tainted order (flow taint)
DICT_VIEW = re.compile(r"^builtins\.dict_(keys|values|items)\[")
EXT_SET_RETURNING = {"h3.k_ring", "h3.hex_ring", "h3.h3_to_children", "h3.polyfill", "h3.compact", "h3.uncompact", "h3.k_ring_distances",
                     "h3.hex_range", "h3.h3_set_to_multi_polygon"}

SANITISERS = {"len", "set", "frozenset", "any", "all", "bool", "isinstance", "str", "repr", "immutables.Map", "Map", "Counter", "collections.Counter",
              "hash", "type", "id", "print", "format", "json.dumps", "frozenset.union"}
WRAPPERS = {"tuple": 0, "list": 0, "iter": 0, "enumerate": 0, "reversed": 0, "map": 1, "filter": 1, "zip": None, "it.chain": None, "itertools.chain": None,
            "it.filterfalse": 1, "itertools.filterfalse": 1, "filterfalse": 1, "islice": 0, "it.islice": 0, "itertools.islice": 0, "it.tee": 0, "TupleOps.flatten": 0, "TupleOps.tail": 0, "TupleOps.prepend": None, "tqdm": 0, "dict": 0,
            "np.array": 0, "numpy.array": 0, "copy.copy": 0, "copy.deepcopy": 0}
ORDER_FREE_METHODS = {"get", "set", "delete", "union", "difference", "intersection", "issubset", "issuperset", "isdisjoint", "symmetric_difference", "update",
                      "add", "discard", "remove", "count", "__contains__", "__len__", "mutate", "finish", "clear", "setdefault", "difference_update", "intersection_update"}
VIEW_METHODS = {"items", "keys", "values", "copy"}
LOG_CALL = re.compile(r"^(log|logger|logging)\.|\.write$|\.writerow$|\.file_report$|^print$|\.debug$|\.info$|\.warning$|\.error$")
RANDOM_ORDERED = {"random.choice", "random.sample", "random.shuffle", "random.choices", "np.random.choice", "numpy.random.choice", "np.random.shuffle"}


@dataclass
class Finding:
    fn: Func
    node: ast.AST
    what: str  # short classification
    why: str
    chain: List[str]
    kind: str = "violation"  # violation | ok | tabled

    def symbol(self) -> str:
        return f"{self.fn.relpath}::{self.fn.qualname}"


class HO:
    def __init__(self, repo: Repo, types, exceptions: Dict[Tuple[str, str], str]):
        self.repo = repo
        self.t = types
        self.idx = index(repo)
        self.exc = exceptions
        self.findings: List[Finding] = []
        self.oks: List[Finding] = []
        self.visited: Set[Tuple[int, str]] = set()
        self.param_memo: Dict[Tuple[str, str, str], bool] = {}
        self.ret_memo: Set[Tuple[str, str]] = set()
        self.sources = 0
        self.sort_key_obligations: List[Tuple[Func, ast.AST, str]] = []
        self.unknown_set_callees: Set[str] = set()
        self.origin: Optional[Func] = None

    # ------------------------------------------------------------------ typing helpers
    def typ(self, fn: Func, node: ast.AST) -> Optional[str]:
        return self.t.type_of(fn.relpath, node)

    def hashy(self, fn: Func, node: ast.AST) -> Optional[str]:
        t = self.typ(fn, node)
        if t:
            # Optional[...] / Union[..., None]
            tt = t.replace("Union[", "").replace(", None]", "").strip()
            if HASHY.search(tt) and not DICT_VIEW.search(tt):
                return t
        if isinstance(node, ast.Call):
            d = dotted(node.func)
            if d in EXT_SET_RETURNING:
                return f"<external set: {d}>"
        return None

    def float_typed(self, fn: Func, node: ast.AST) -> bool:
        t = self.typ(fn, node) or ""
        return t.startswith("builtins.float") or "float" in t and "int" not in t

    # ------------------------------------------------------------------ reporting
    def report(self, fn: Func, node: ast.AST, what: str, why: str, chain: List[str]):
        """Exception table: (file, function, what) for the reporting function (or its outermost function), or
        (file, function, "origin") when everything that flows out of that source function is exempt."""
        def tops(f):
            out = [f]
            while f.outer is not None:
                f = f.outer
                out.append(f)
            return out
        for f in tops(fn):
            r = self.exc.get((f.relpath, f.qualname, what))
            if r:
                self.oks.append(Finding(fn, node, what, r, chain, "tabled"))
                return
        if self.origin is not None:
            for f in tops(self.origin):
                r = self.exc.get((f.relpath, f.qualname, "origin"))
                if r:
                    self.oks.append(Finding(fn, node, what, r, chain, "tabled"))
                    return
        self.findings.append(Finding(fn, node, what, why, chain))

    def ok(self, fn: Func, node: ast.AST, what: str, chain: List[str]):
        self.oks.append(Finding(fn, node, what, "", chain, "ok"))

    # ------------------------------------------------------------------ driver
    def run(self):
        for fn in self.repo.all_funcs():
            if fn.relpath.startswith(PKG + "/resources"):
                continue
            if fn.outer is not None:
                continue  # nested functions are walked with their outermost function
            for node in ast.walk(fn.node):
                if not isinstance(node, ast.expr):
                    continue
                owner = self._owner(node, fn)
                h = self.hashy(owner, node)
                if not h:
                    continue
                # the node is a hash-ordered collection: only iterating contexts matter
                self.sources += 1
                self.origin = owner
                self.context(owner, node, "set", [f"{owner.qualname}: {flow.dump(node)[:50]} : {h[:60]}"])
                self.origin = None
        # module-level code
        return self

    def _owner(self, node: ast.AST, default: Func) -> Func:
        f = enclosing_func(node)
        return f or default

    # ------------------------------------------------------------------ the context classifier
    def context(self, fn: Func, node: ast.AST, kind: str, chain: List[str]):
        """kind: 'set' (unordered container by type) | 'seq' (sequence whose order is tainted) | 'dict' (dict filled in tainted order)"""
        k = (id(node), kind)
        if k in self.visited:
            return
        self.visited.add(k)
        p = parent(node)
        if p is None:
            return
        here = lambda s: chain + [s]
        if kind.startswith("tup:"):
            # a tuple one of whose components is a sequence in hash order: only taking it apart matters
            i = int(kind[4:])
            if isinstance(p, (ast.Assign, ast.AnnAssign)) and getattr(p, "value", None) is node:
                for t in (p.targets if isinstance(p, ast.Assign) else [p.target]):
                    if isinstance(t, (ast.Tuple, ast.List)) and i < len(t.elts) and isinstance(t.elts[i], ast.Name):
                        self._follow_name(fn, t.elts[i].id, p, "seq", here(f"unpacked into `{t.elts[i].id}`"))
                    elif isinstance(t, ast.Name):
                        self._follow_name(fn, t.id, p, kind, here(f"bound to `{t.id}`"))
            elif isinstance(p, ast.Return):
                self._returned(fn, node, kind, chain)
            elif isinstance(p, ast.Subscript) and p.value is node and isinstance(p.slice, ast.Constant) and p.slice.value == i:
                self.context(fn, p, "seq", here(f"component [{i}]"))
            return
        # ---- call contexts
        if isinstance(p, ast.Call):
            fname = dotted(p.func) or (p.func.attr if isinstance(p.func, ast.Attribute) else "")
            if p.func is node:
                return  # calling the thing: not an order use
            # argument position
            pos = None
            kwname = None
            for i, a in enumerate(p.args):
                if a is node:
                    pos = i
                elif isinstance(a, ast.Starred) and a.value is node:
                    self.report(fn, p, "star-splat", f"`*{flow.dump(node)[:40]}` expands the elements in hash order into positional arguments", chain)
                    return
            for kw in p.keywords:
                if kw.value is node:
                    kwname = kw.arg
            if fname in ("sorted",) and pos == 0:
                self._sorted(fn, p, node, kind, chain)
                return
            if fname in SANITISERS or fname.split(".")[-1] in ("union", "difference", "intersection", "issubset", "issuperset", "update") and kind == "set":
                self.ok(fn, p, f"sanitised by {fname}", chain)
                return
            if fname in ("min", "max") and pos == 0:
                key = [kw.value for kw in p.keywords if kw.arg == "key"]
                if not key:
                    self.ok(fn, p, f"{fname} without key (value-determined)", chain)
                else:
                    tot = self.total_key(fn, key[0], node)
                    if tot:
                        self.ok(fn, p, f"{fname} with total key", chain)
                    else:
                        self.report(fn, p, f"{fname}-with-partial-key", f"{fname}(..., key={flow.dump(key[0])[:60]}) over a hash-ordered input: on a tie the first element in hash order wins", chain)
                return
            if fname == "sum" and pos == 0:
                if self.float_typed(fn, p):
                    self.report(fn, p, "float-sum", "floating-point sum accumulated in hash order (rounding depends on the order)", chain)
                else:
                    self.ok(fn, p, "sum of integers", chain)
                return
            if fname == "next" and pos == 0:
                self.report(fn, p, "next", "takes the first element in hash order", chain)
                return
            if fname in RANDOM_ORDERED and pos == 0:
                self.report(fn, p, "random-draw", f"{fname} over a sequence in hash order: the (seeded) draw picks by position, so the result depends on the hash seed", chain)
                return
            if isinstance(p.func, ast.Attribute) and p.func.attr == "join" and pos == 0:
                self.report(fn, p, "join", "string built in hash order", chain)
                return
            if fname in ("ft.reduce", "functools.reduce", "reduce"):
                if pos == 1:
                    self._reduce(fn, p, node, chain)
                elif pos == 2 and kind != "set":
                    self.context(fn, p, kind, here("initial value of a fold"))
                return
            if fname in ("it.tee", "itertools.tee") and pos == 0:
                gp = parent(p)
                if isinstance(gp, ast.Assign) and isinstance(gp.targets[0], (ast.Tuple, ast.List)):
                    for t in gp.targets[0].elts:
                        if isinstance(t, ast.Name):
                            self._follow_name(fn, t.id, gp, "seq", here(f"tee copy `{t.id}`"))
                    return
            if fname in WRAPPERS and pos is not None and (WRAPPERS[fname] is None or WRAPPERS[fname] == pos):
                newkind = "dict" if fname == "dict" else "seq"
                self.context(fn, p, newkind, here(f"{fname}(...) keeps the order"))
                return
            if fname in ("map", "filter") and pos == 0:
                return  # the function argument
            if LOG_CALL.search(fname or ""):
                self.ok(fn, p, "written to a log line (line content may list a set; exempt)", chain)
                return
            if pos is None and kwname is None:
                return
            # argument of some other call: into the callee
            self._into_callee(fn, p, node, pos, kwname, kind, chain)
            return
        # ---- method call on the value: node is the receiver
        if isinstance(p, ast.Attribute) and p.value is node:
            gp = parent(p)
            if isinstance(gp, ast.Call) and gp.func is p:
                m = p.attr
                if m in VIEW_METHODS:
                    if self.hashy(fn, gp) and kind == "set":
                        return  # the view is itself a typed source and is analysed on its own
                    self.context(fn, gp, kind if m == "copy" else "seq", here(f".{m}()"))
                    return
                if m in ORDER_FREE_METHODS:
                    return
                if m == "pop" and kind == "set":
                    self.report(fn, gp, "set.pop", "set.pop() removes an arbitrary (hash-order) element", chain)
                    return
                if m in ("append", "extend", "insert", "index", "sort", "pop") and kind in ("seq", "dict"):
                    if m == "sort":
                        return
                    if m in ("append", "extend", "insert"):
                        return  # mutation of the tainted sequence: its other uses are followed from the definition
                    self.report(fn, gp, f"seq.{m}", f".{m}() on a sequence in hash order", chain)
                    return
                if m in ("join",):
                    return
                if m in ("update", "setdefault", "get") and kind == "dict":
                    return  # keyed access / keyed merge into a mapping whose insertion order is already followed
                # other methods (e.g. numpy): unknown
                if kind == "set":
                    return
                self.report(fn, gp, f"method-{m}", f".{m}() on a sequence whose order is hash order", chain)
            return
        # ---- iteration
        if isinstance(p, (ast.For, ast.AsyncFor)) and p.iter is node:
            self._loop(fn, p, node, chain)
            return
        if isinstance(p, ast.comprehension) and p.iter is node:
            owner = parent(p)
            if isinstance(owner, ast.SetComp):
                self.ok(fn, owner, "set comprehension (unordered result)", chain)
            elif isinstance(owner, ast.DictComp):
                if self._derives(owner.key, p.target):
                    # keyed by the element: as a mapping it is order-free; its insertion order is tainted
                    self.context(fn, owner, "dict", here("dict comprehension keyed by the element"))
                else:
                    self.report(fn, owner, "dictcomp-key-collision", f"dict comprehension over a hash-ordered input whose key `{flow.dump(owner.key)[:40]}` does not identify the element: on a collision the last element in hash order wins", chain)
            else:
                self.context(fn, owner, "seq", here("comprehension keeps the order"))
            return
        # ---- bindings
        if isinstance(p, (ast.Assign, ast.AnnAssign)) and getattr(p, "value", None) is node:
            targets = p.targets if isinstance(p, ast.Assign) else [p.target]
            for t in targets:
                if isinstance(t, ast.Name):
                    if kind == "set":
                        tt = self.typ(fn, t) or ""
                        if HASHY.search(tt):
                            continue  # typed: every use of the variable is a typed source of its own
                        # an untyped (Any) set, e.g. from h3: follow the variable
                    self._follow_name(fn, t.id, p, kind, here(f"bound to `{t.id}`"))
                elif isinstance(t, (ast.Tuple, ast.List)):
                    self.report(fn, p, "unpack", f"`{flow.dump(t)[:40]} = ...` unpacks elements by position in hash order", chain)
                elif isinstance(t, (ast.Attribute, ast.Subscript)):
                    if kind != "set":
                        self.report(fn, p, "stored-order", f"a sequence in hash order is stored in `{flow.dump(t)[:50]}`", chain)
            return
        if isinstance(p, ast.AugAssign) and p.value is node:
            if kind == "set":
                return
            if isinstance(p.target, ast.Name):
                self._follow_name(fn, p.target.id, p, "seq", here(f"accumulated into `{p.target.id}`"))
            return
        if isinstance(p, ast.NamedExpr):
            return
        if isinstance(p, ast.Return) or isinstance(p, (ast.Yield, ast.YieldFrom)):
            if kind == "set":
                return  # returning an unordered container: typed at the callers
            self._returned(fn, node, kind, chain)
            return
        if isinstance(p, ast.Lambda) and p.body is node:
            if kind == "set":
                return
            self.report(fn, p, "lambda-returns-order", "a lambda returns a sequence in hash order", chain)
            return
        if isinstance(p, ast.keyword):
            call = parent(p)
            if isinstance(call, ast.Call):
                fname = dotted(call.func) or ""
                if fname == "sorted" and p.arg == "key":
                    return
                self._into_callee(fn, call, node, None, p.arg, kind, chain)
            return
        # ---- structural
        if isinstance(p, ast.Starred):
            gp = parent(p)
            if isinstance(gp, ast.Call):
                self.report(fn, gp, "star-splat", "elements expanded in hash order", chain)
            else:
                self.context(fn, gp, "seq", here("*-expansion"))
            return
        if isinstance(p, ast.Subscript) and p.value is node:
            if kind == "set":
                return  # Map[key]
            if isinstance(p.slice, ast.Slice):
                self.context(fn, p, kind, here("slice"))
            elif kind == "dict":
                return
            else:
                self.report(fn, p, "index", f"`{flow.dump(p)[:50]}` picks an element by its position in hash order", chain)
            return
        if isinstance(p, ast.BinOp):
            if kind == "set":
                return
            if isinstance(p.op, ast.Add):
                self.context(fn, p, "seq", here("concatenation"))
            return
        if isinstance(p, ast.Compare):
            if kind in ("seq",) and any(isinstance(o, (ast.Eq, ast.NotEq)) for o in p.ops):
                self.report(fn, p, "seq-compare", "position-wise comparison of a sequence in hash order", chain)
            return
        if isinstance(p, (ast.BoolOp, ast.UnaryOp, ast.If, ast.While, ast.IfExp, ast.Assert)):
            if isinstance(p, ast.IfExp) and p.test is not node:
                self.context(fn, p, kind, chain)
            return
        if isinstance(p, (ast.Tuple, ast.List, ast.Set, ast.Dict)):
            if kind == "set" or kind.startswith("tup:"):
                return
            if isinstance(p, ast.Tuple) and node in p.elts and kind == "seq":
                self.context(fn, p, f"tup:{p.elts.index(node)}", here(f"component {p.elts.index(node)} of a tuple"))
                return
            self.context(fn, p, "seq", here("element of a literal"))
            return
        if isinstance(p, (ast.FormattedValue, ast.JoinedStr)):
            return  # message text
        if isinstance(p, ast.Expr):
            return
        if isinstance(p, ast.withitem):
            return
        if isinstance(p, ast.Attribute):
            return
        if isinstance(p, (ast.Await,)):
            self.context(fn, p, kind, chain)
            return
        if kind == "set":
            return
        self.report(fn, p, f"unclassified-{type(p).__name__}", "use of a sequence in hash order that the analysis cannot classify", chain)

    # ------------------------------------------------------------------ pieces
    def _derives(self, expr: ast.AST, target: ast.AST) -> bool:
        names = flow.target_names(target)
        return any(isinstance(n, ast.Name) and n.id in names for n in ast.walk(expr))

    def _follow_name(self, fn: Func, name: str, binding: ast.stmt, kind: str, chain: List[str]):
        top = fn
        scope = fn.node
        uses = [n for n in ast.walk(scope) if isinstance(n, ast.Name) and n.id == name and isinstance(n.ctx, ast.Load)]
        for u in uses:
            owner = enclosing_func(u) or fn
            self.context(owner, u, kind, chain)

    def _follow_field(self, field: str, chain: List[str]):
        if ("field", field) in self.visited:
            return
        self.visited.add(("field", field))
        for m in self.repo.pkg_modules():
            if m.relpath.startswith(PKG + "/resources"):
                continue
            for n in ast.walk(m.tree):
                if isinstance(n, ast.Attribute) and n.attr == field and isinstance(n.ctx, ast.Load):
                    owner = enclosing_func(n)
                    if owner is not None:
                        self.context(owner, n, "dict", chain + [f"read as `{flow.dump(n)[:40]}` in {owner.qualname}"])

    def _returned(self, fn: Func, node: ast.AST, kind: str, chain: List[str]):
        key = (fn.relpath, fn.qualname)
        if key in self.ret_memo:
            return
        self.ret_memo.add(key)
        sites = [s for s in self.idx.calls(fn.name, refs=True) if in_pkg(s)]
        if fn.outer is not None:
            sites = [s for s in sites if s.func is not None and (s.func == fn.outer or s.func.qualname.startswith(fn.outer.qualname))]
        if not sites:
            self.report(fn, node, "returns-order", f"{fn.qualname} returns a sequence in hash order (public API / no caller found to classify it)", chain)
            return
        for s in sites:
            if s.func is None:
                continue
            if s.kind == "ref":
                # the function is passed as a value (e.g. map(f, xs)): its results end up in the call's result
                gp = parent(s.node)
                if isinstance(gp, ast.Call) and (dotted(gp.func) in ("map", "ft.reduce", "functools.reduce")):
                    self.context(s.func, gp, "seq", chain + [f"returned by {fn.qualname} through {dotted(gp.func)}"])
                continue
            self.context(s.func, s.node, kind, chain + [f"returned by {fn.qualname}"])

    def _resolve_callee(self, fn: Func, call: ast.Call) -> Optional[Func]:
        full = self.t.callee_of(fn.relpath, call)
        cands: List[Func] = []
        if full and full.startswith("nrel.hive"):
            for part in full.split("|"):
                mod, _, name = part.rpartition(".")
                # try module.func, module.Class.method
                for modname, m in self.repo.by_modname.items():
                    if part.startswith(modname + "."):
                        q = part[len(modname) + 1:]
                        f = m.funcs.get(q)
                        if f is not None:
                            cands.append(f)
        if not cands:
            nm = call.func.attr if isinstance(call.func, ast.Attribute) else (call.func.id if isinstance(call.func, ast.Name) else None)
            if nm:
                # nested def in scope
                f = fn
                while f is not None:
                    c = fn.module.funcs.get(f"{f.qualname}.{nm}")
                    if c is not None:
                        return c
                    f = f.outer
                allf = [f for f in self.repo.all_funcs() if f.name == nm and not f.relpath.startswith(PKG + "/resources")]
                if len(allf) == 1:
                    return allf[0]
        return cands[0] if cands else None

    def _into_callee(self, fn: Func, call: ast.Call, node: ast.AST, pos: Optional[int], kwname: Optional[str], kind: str, chain: List[str]):
        callee = self._resolve_callee(fn, call)
        fname = dotted(call.func) or flow.dump(call.func)[:40]
        if callee is None:
            # constructor of a repo class (NamedTuple / dataclass field)?
            nm = fname.split(".")[-1]
            if nm in self.repo.class_index or (nm in ("_replace", "replace") and kwname):
                if kind == "dict" and kwname:
                    # a mapping filled in hash order is kept in a field: as a mapping it is order-free; whoever iterates the
                    # field is judged where it does so (the field's reads are followed like a hash-ordered mapping)
                    self._follow_field(kwname, chain + [f"stored in field `{kwname}` of {nm}"])
                    return
                if kind != "set":
                    self.report(fn, call, "stored-order", f"a sequence in hash order is stored in field `{kwname or pos}` of {nm}", chain)
                return
            if kind == "set":
                # an unordered container handed to code outside the package (or to a callable value): assumed
                # to be treated as the set / map it is (stated in the evidence as an assumption)
                self.unknown_set_callees.add(fname)
                return
            if fname.endswith("Error") or fname in ("Exception",):
                return
            if isinstance(call.func, ast.Attribute) and call.func.attr == "update" and kind == "dict" and pos == 0:
                # mapping.update(keyed mapping): values land under their own keys; only the insertion order of NEW keys is
                # the argument's order, so the receiving mapping is followed as a mapping in hash order from here on
                recv = call.func.value
                if isinstance(recv, ast.Name):
                    self._follow_name(fn, recv.id, call, "dict", chain + [f"merged into `{recv.id}` by .update() (keyed)"])
                    return
            self.report(fn, call, "unknown-callee", f"a sequence in hash order is passed to `{fname}`, which the analysis cannot resolve", chain)
            return
        # map argument to parameter
        params = callee.params
        off = 1 if callee.cls is not None and params and params[0] in ("self", "cls", "mcs") and isinstance(call.func, ast.Attribute) else 0
        pname = None
        if kwname:
            pname = kwname
        elif pos is not None and pos + off < len(params):
            pname = params[pos + off]
        if pname is None or pname not in params:
            return
        if kind == "set":
            # typed parameter? then the callee's own uses are typed sources
            ann = None
            a = callee.node.args
            for x in a.posonlyargs + a.args + a.kwonlyargs:
                if x.arg == pname and x.annotation is not None:
                    ann = flow.dump(x.annotation)
            if ann and re.search(r"Map\[|Set\[|FrozenSet\[|AbstractSet\[|frozenset\[|set\[|\bMap\b", ann):
                return
        memo = (callee.relpath, callee.qualname, pname)
        if memo in self.param_memo:
            return
        self.param_memo[memo] = True
        uses = [n for n in ast.walk(callee.node) if isinstance(n, ast.Name) and n.id == pname and isinstance(n.ctx, ast.Load)]
        for u in uses:
            owner = enclosing_func(u) or callee
            self.context(owner, u, kind, chain + [f"passed to {callee.qualname}({pname})"])

    # ---- sorted
    def total_key(self, fn: Func, key: ast.AST, elems: ast.AST) -> bool:
        """Does the key function identify the element (so that the order is total on distinct elements)?"""
        if isinstance(key, ast.Constant) and key.value is None:
            return True
        if isinstance(key, ast.Lambda) and len(key.args.args) == 1:
            v = key.args.args[0].arg
            return self._identifies(key.body, v)
        if isinstance(key, ast.Name):
            # local def / module function
            f = fn
            while f is not None:
                c = fn.module.funcs.get(f"{f.qualname}.{key.id}")
                if c is not None:
                    return self._fn_identifies(c)
                f = f.outer
            c = fn.module.funcs.get(key.id)
            if c is not None:
                return self._fn_identifies(c)
            # a parameter: obligation on the callers
            top = fn
            if key.id in fn.params:
                self.sort_key_obligations.append((fn, key, key.id))
                return True
            # local variable bound to a lambda / IfExp of lambdas
            for n in ast.walk(fn.node):
                if isinstance(n, ast.Assign) and any(isinstance(t, ast.Name) and t.id == key.id for t in n.targets):
                    return self.total_key(fn, n.value, elems)
            return False
        if isinstance(key, ast.IfExp):
            return self.total_key(fn, key.body, elems) and self.total_key(fn, key.orelse, elems)
        if isinstance(key, ast.Call) and not key.keywords and key.args and all(isinstance(a, ast.Constant) for a in key.args):
            # operator.itemgetter(0, ..) / operator.attrgetter("id", ..): the lambdas they denote
            d = flow.dump(key.func)
            if d in ("operator.itemgetter", "itemgetter"):
                return any(a.value == 0 for a in key.args)
            if d in ("operator.attrgetter", "attrgetter"):
                return any(a.value in ("id", "link_id", "vehicle_id", "request_id") for a in key.args)
        if isinstance(key, ast.Attribute):
            return False
        return False

    def _identifies(self, body: ast.AST, v: str) -> bool:
        """body identifies the element v: v itself, v.id, v[0] (Map item key), or a tuple/IfExp containing such a component."""
        if isinstance(body, ast.Name) and body.id == v:
            return True
        if isinstance(body, ast.Attribute) and isinstance(body.value, ast.Name) and body.value.id == v and body.attr in ("id", "link_id", "vehicle_id", "request_id"):
            return True
        if isinstance(body, ast.Subscript) and isinstance(body.value, ast.Name) and body.value.id == v and isinstance(body.slice, ast.Constant) and body.slice.value == 0:
            return True
        if isinstance(body, ast.Tuple):
            return any(self._identifies(e, v) for e in body.elts)
        if isinstance(body, ast.IfExp):
            return self._identifies(body.body, v) and self._identifies(body.orelse, v)
        if isinstance(body, ast.BoolOp) and isinstance(body.op, ast.Or):
            # `f or ""` for Optional ids
            return self._identifies(body.values[0], v)
        return False

    def _fn_identifies(self, f: Func) -> bool:
        if not f.params:
            return False
        v = f.params[-1] if f.cls is not None and len(f.params) > 1 else f.params[0]
        rets = [p for p in flow.paths(f.node) if p.kind == "return"]
        return bool(rets) and all(self._identifies(flow.core(p.value), v) or any(self._identifies(e, v) for e in (p.value.elts if isinstance(p.value, ast.Tuple) else [])) for p in rets)

    def _sorted(self, fn: Func, call: ast.Call, node: ast.AST, kind: str, chain: List[str]):
        key = [kw.value for kw in call.keywords if kw.arg == "key"]
        if not key:
            self.ok(fn, call, "sorted() without key (elements ordered by value)", chain)
            return
        if self.total_key(fn, key[0], node):
            self.ok(fn, call, f"sorted with total key {flow.dump(key[0])[:50]}", chain)
        else:
            self.report(fn, call, "sorted-partial-key", f"sorted(..., key={flow.dump(key[0])[:60]}): the key does not identify the element, so elements with equal keys keep their hash order "
                        f"(the repository's own rule: sorting on some field is not enough)", chain)

    # ---- loops / reducers
    def _reduce(self, fn: Func, call: ast.Call, node: ast.AST, chain: List[str]):
        f = call.args[0]
        body = None
        acc = elem = None
        where = call
        if isinstance(f, ast.Lambda) and len(f.args.args) >= 2:
            acc, elem = f.args.args[0].arg, f.args.args[1].arg
            rets = [f.body]
            stmts = []
        else:
            from .rules import _reducer_node
            rnode, label = _reducer_node(self.repo, fn, f)
            if rnode is None or isinstance(rnode, ast.Lambda):
                self.report(fn, call, "reduce-unresolved", f"reduce over a hash-ordered input with a reducer `{flow.dump(f)[:40]}` the analysis cannot resolve", chain)
                return
            a = rnode.args
            ps = [x.arg for x in a.posonlyargs + a.args]
            if len(ps) < 2:
                self.report(fn, call, "reduce-unresolved", "reducer with fewer than two parameters", chain)
                return
            acc, elem = ps[0], ps[1]
            rets = [r.value for r in ast.walk(rnode) if isinstance(r, ast.Return) and r.value is not None]
            stmts = rnode.body
        verdict = self._commutative_returns(rets, acc, elem, stmts)
        if verdict is None:
            self.ok(fn, call, "reduce with a keyed / commutative reducer", chain)
        else:
            self.report(fn, call, "reduce-order-sensitive", f"reduce over a hash-ordered input: {verdict}", chain)

    def _commutative_returns(self, rets: List[ast.AST], acc: str, elem: str, stmts) -> Optional[str]:
        """None if every returned accumulator is acc itself or acc updated under a key derived from elem."""
        env: Dict[str, ast.AST] = {}
        for s in stmts or []:
            for n in ast.walk(s) if not isinstance(s, (ast.FunctionDef,)) else []:
                if isinstance(n, ast.Assign) and len(n.targets) == 1 and isinstance(n.targets[0], ast.Name):
                    env[n.targets[0].id] = n.value
        def expand(e, depth=0):
            if depth > 4:
                return e
            if isinstance(e, ast.Name) and e.id in env and e.id not in (acc, elem):
                return expand(env[e.id], depth + 1)
            return e
        for r in rets:
            r = expand(r)
            alts = [r]
            if isinstance(r, ast.IfExp):
                alts = [expand(r.body), expand(r.orelse)]
            for a in alts:
                if isinstance(a, ast.Name) and a.id == acc:
                    continue
                if isinstance(a, ast.Call) and isinstance(a.func, ast.Attribute) and isinstance(a.func.value, ast.Name) and a.func.value.id == acc:
                    m = a.func.attr
                    if m in ("set",) and a.args and self._mentions(a.args[0], elem):
                        continue
                    if m in ("update",) and a.args and isinstance(a.args[0], ast.Dict) and all(k is not None and self._mentions(k, elem) for k in a.args[0].keys):
                        continue
                    if m in ("add", "union"):
                        continue
                    return f"accumulator updated by `.{m}(...)` without a key derived from the element"
                if isinstance(a, ast.BinOp) and isinstance(a.op, ast.Add) and isinstance(a.left, ast.Name) and a.left.id == acc:
                    return "accumulator extended by concatenation: the result lists elements in hash order"
                return f"returns `{flow.dump(a)[:60]}`"
        return None

    def _mentions(self, e: ast.AST, name: str) -> bool:
        return any(isinstance(n, ast.Name) and n.id == name for n in ast.walk(e))

    def _loop(self, fn: Func, loop: ast.For, node: ast.AST, chain: List[str]):
        tnames = flow.target_names(loop.target)
        # variables derived from the loop variable inside the body
        derived = set(tnames)
        changed = True
        while changed:
            changed = False
            for n in ast.walk(loop):
                if isinstance(n, ast.Assign) and any(self._mentions(n.value, d) for d in derived):
                    for t in n.targets:
                        for nm in flow.target_names(t):
                            # an accumulator (mentions itself) or a value that survives the loop is not a per-element local
                            if nm not in derived and not self._mentions(n.value, nm) and not self._used_after(fn, loop, nm):
                                derived.add(nm)
                                changed = True
                if isinstance(n, (ast.For, ast.comprehension)) and n is not loop and any(self._mentions(n.iter, d) for d in derived):
                    for nm in flow.target_names(n.target):
                        if nm not in derived:
                            derived.add(nm)
                            changed = True
        outer_assigned = set()
        problems: List[str] = []
        tainted_lists: Set[str] = set()
        for s in loop.body:
            for n in ast.walk(s):
                if isinstance(n, (ast.Break, ast.Return)):
                    problems.append(f"early exit (`{type(n).__name__.lower()}`): which elements are processed depends on hash order")
                if isinstance(n, ast.Assign) or isinstance(n, ast.AugAssign) or isinstance(n, ast.AnnAssign):
                    targets = n.targets if isinstance(n, ast.Assign) else [n.target]
                    for t in targets:
                        if isinstance(t, ast.Subscript):
                            if not any(self._mentions(t.slice, d) for d in derived) and not isinstance(t.slice, ast.Constant):
                                problems.append(f"`{flow.dump(t)[:40]} = ...` is not keyed by the iteration element: on a key collision the last element in hash order wins")
                        elif isinstance(t, ast.Attribute):
                            if not self._mentions(t, "self") or True:
                                problems.append(f"`{flow.dump(t)[:40]}` is overwritten in every iteration (last element in hash order wins)") if not isinstance(n, ast.AugAssign) else None
                            if isinstance(n, ast.AugAssign) and self.float_typed(fn, n.value):
                                problems.append(f"`{flow.dump(t)[:40]} += <float>` accumulates in hash order")
                        elif isinstance(t, ast.Name) and t.id not in derived:
                            # a variable that lives across iterations?
                            if self._read_before_write_in_body(loop, t.id) or self._used_after(fn, loop, t.id):
                                if isinstance(n, ast.AugAssign) and not self.float_typed(fn, n.value) and isinstance(n.op, ast.Add) and not self._seq_typed(fn, n.target):
                                    continue  # integer counter
                                v = n.value
                                if isinstance(n, ast.Assign) and self._keyed_update(v, t.id, tnames):
                                    continue
                                if isinstance(n, ast.Assign) and isinstance(v, ast.Call) and not self._mentions(v, t.id):
                                    # x = f(elem) then used after the loop: last wins
                                    pass
                                problems.append(f"`{t.id}` is carried across iterations and updated by `{flow.dump(n)[:70]}` (not a keyed / commutative update)")
                if isinstance(n, ast.Call) and isinstance(n.func, ast.Attribute):
                    m = n.func.attr
                    recv = n.func.value
                    if m in ("append", "extend", "insert") and isinstance(recv, ast.Name) and recv.id not in derived:
                        tainted_lists.add(recv.id)
                    elif m in ("append", "extend", "insert") and not isinstance(recv, ast.Name):
                        d = flow.dump(recv)
                        if not any(self._mentions(recv, x) for x in derived):
                            problems.append(f"`{d[:40]}.{m}(...)` grows a shared list in hash order")
                    elif m == "update" and isinstance(recv, ast.Name) and recv.id not in derived and n.args and isinstance(n.args[0], ast.Dict):
                        if not all(k is not None and any(self._mentions(k, d) for d in tnames) for k in n.args[0].keys):
                            problems.append(f"`{flow.dump(n)[:60]}`: the written key is not the iteration element: on a collision the last element in hash order wins")
        if problems:
            self.report(fn, loop, "loop-order-sensitive", "; ".join(sorted(set(problems))[:3]), chain)
        else:
            self.ok(fn, loop, "loop with keyed / commutative body", chain)
        for name in tainted_lists:
            self._follow_name(fn, name, loop, "seq", chain + [f"`{name}` is filled in iteration order"])

    def _seq_typed(self, fn: Func, node: ast.AST) -> bool:
        t = self.typ(fn, node) or ""
        return t.startswith(("builtins.tuple", "builtins.list", "tuple[", "list[")) or "Tuple[" in t

    def _keyed_update(self, v: ast.AST, acc: str, tnames: Set[str]) -> bool:
        if isinstance(v, ast.Call) and isinstance(v.func, ast.Attribute) and isinstance(v.func.value, ast.Name) and v.func.value.id == acc:
            m = v.func.attr
            if m == "set" and v.args and any(self._mentions(v.args[0], d) for d in tnames):
                return True
            if m == "update" and v.args and isinstance(v.args[0], ast.Dict) and all(k is not None and any(self._mentions(k, d) for d in tnames) for k in v.args[0].keys):
                return True
            if m in ("add", "union"):
                return True
        return False

    def _read_before_write_in_body(self, loop: ast.For, name: str) -> bool:
        for n in ast.walk(loop):
            if isinstance(n, ast.Name) and n.id == name and isinstance(n.ctx, ast.Load):
                return True
        return False

    def _used_after(self, fn: Func, loop: ast.For, name: str) -> bool:
        """Is the value `name` has when the loop ends read afterwards? (the first later occurrence is a read)"""
        end = (getattr(loop, "end_lineno", loop.lineno), getattr(loop, "end_col_offset", 0))
        later = [n for n in ast.walk(fn.node) if isinstance(n, ast.Name) and n.id == name and (n.lineno, n.col_offset) > end]
        if not later:
            return False
        # within one statement the right-hand side is evaluated before the target is stored
        def order(n):
            st = n
            while parent(st) is not None and not isinstance(st, ast.stmt):
                st = parent(st)
            return (st.lineno, 0 if isinstance(n.ctx, ast.Load) else 1, n.col_offset)
        first = min(later, key=order)
        return isinstance(first.ctx, ast.Load)
