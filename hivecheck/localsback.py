"""Local variable names put back (canonical spelling, pass LB).

A handful of rules look a local up by the name the pinned tree gives it, and several compare an expression's text in which a
comprehension variable occurs. Renaming a local is behaviour-preserving, so before analysis every function that the pinned tree
also has gets the pinned names of its locals back: the binding sites of the function's own scope (assignments, loop / with /
comprehension / except targets, walrus) are listed in source order with a *signature* that does not mention any local name
(kind of binding, position inside a tuple target, shape of the bound expression with locals and inner parameters blanked); the
current list is aligned with the pinned tree's list (`hivecheck/baseline_locals.json`, written by tools/gen_baseline_symbols.py)
and a local whose sites align with sites of one differently named pinned local — and whose pinned name is not in use in the
function — is renamed (definition and every use, nested scopes included unless they rebind it). Anything less clear is left alone.
"""
import ast
import difflib
import hashlib
import json
import os
from typing import Dict, List, Optional, Tuple

_SCOPES = (ast.FunctionDef, ast.AsyncFunctionDef, ast.Lambda)
_COMPS = (ast.ListComp, ast.SetComp, ast.DictComp, ast.GeneratorExp)


def _params(fn) -> set:
    a = fn.args
    s = {x.arg for x in a.posonlyargs + a.args + a.kwonlyargs}
    if a.vararg:
        s.add(a.vararg.arg)
    if a.kwarg:
        s.add(a.kwarg.arg)
    return s


def _own(fn):
    """nodes of fn's own scope in source order (nested defs / lambdas / classes not entered; comprehensions entered)"""
    out = []

    def walk(n):
        for c in ast.iter_child_nodes(n):
            if isinstance(c, _SCOPES + (ast.ClassDef,)):
                continue
            out.append(c)
            walk(c)
    if isinstance(fn, ast.Lambda):
        out.append(fn.body)
        walk(fn.body)
    else:
        for s in fn.body:
            out.append(s)
            walk(s)
    return out


def _target_names(t, path=()):
    if isinstance(t, ast.Name):
        yield t, path
    elif isinstance(t, (ast.Tuple, ast.List)):
        for i, e in enumerate(t.elts):
            yield from _target_names(e, path + (i,))
    elif isinstance(t, ast.Starred):
        yield from _target_names(t.value, path + ("*",))


def sites(fn) -> List[Tuple[str, str, Optional[ast.AST], tuple]]:
    """[(name, kind, bound expression, position in target)] in source order"""
    decl = set()
    res = []
    for n in _own(fn):
        if isinstance(n, (ast.Global, ast.Nonlocal)):
            decl |= set(n.names)
        elif isinstance(n, ast.Assign):
            for t in n.targets:
                for nm, p in _target_names(t):
                    res.append((nm.id, "assign", n.value, p))
        elif isinstance(n, ast.AnnAssign) and n.value is not None:
            for nm, p in _target_names(n.target):
                res.append((nm.id, "assign", n.value, p))
        elif isinstance(n, (ast.For, ast.AsyncFor)):
            for nm, p in _target_names(n.target):
                res.append((nm.id, "for", n.iter, p))
        elif isinstance(n, (ast.With, ast.AsyncWith)):
            for it in n.items:
                if it.optional_vars is not None:
                    for nm, p in _target_names(it.optional_vars):
                        res.append((nm.id, "with", it.context_expr, p))
        elif isinstance(n, _COMPS):
            for g in n.generators:
                for nm, p in _target_names(g.target):
                    res.append((nm.id, "comp", g.iter, p))
        elif isinstance(n, ast.NamedExpr):
            res.append((n.target.id, "walrus", n.value, ()))
        elif isinstance(n, ast.ExceptHandler) and n.name:
            res.append((n.name, "except", n.type, ()))
    ps = _params(fn)
    return [r for r in res if r[0] not in decl and r[0] not in ps]


class _Blank(ast.NodeTransformer):
    def __init__(self, names):
        self.names = names

    def visit_Name(self, n):
        if n.id in self.names:
            return ast.Name(id="_", ctx=ast.Load())
        return ast.Name(id=n.id, ctx=ast.Load())

    def visit_arg(self, n):
        return ast.arg(arg="_", annotation=None)


def _shape(e, blank) -> str:
    """ast.dump without field names, with the names in `blank` (and every `arg`) written as `_` -- no copy of the tree"""
    if isinstance(e, ast.Name):
        return "N(_)" if e.id in blank else f"N({e.id})"
    if isinstance(e, ast.arg):
        return "a(_)"
    if isinstance(e, ast.AST):
        parts = []
        for f_ in e._fields:
            v = getattr(e, f_, None)
            if f_ == "ctx":
                continue
            parts.append(_shape(v, blank))
        return f"{type(e).__name__}({','.join(parts)})"
    if isinstance(e, list):
        return "[" + ",".join(_shape(x, blank) for x in e) + "]"
    return repr(e)


def _sig(kind, expr, pos, localnames, params=()) -> str:
    if expr is None:
        shape = ""
    else:
        inner = set(params)   # the function's own parameters are blanked too: a renamed parameter leaves the signature alone
        for x in ast.walk(expr):
            if isinstance(x, _SCOPES):
                inner |= _params(x)
            elif isinstance(x, _COMPS):
                for g in x.generators:
                    inner |= {nm.id for nm, _ in _target_names(g.target)}
        shape = _shape(expr, localnames | inner)
    return hashlib.md5(f"{kind}|{pos}|{shape}".encode()).hexdigest()[:12]


def bindings(fn) -> List[List[str]]:
    ss = sites(fn)
    names = {s[0] for s in ss}
    ps = _params(fn)
    return [[nm, _sig(kind, e, pos, names, ps)] for nm, kind, e, pos in ss]


_BASE = None


def baseline() -> Dict[str, Dict[str, list]]:
    global _BASE
    if _BASE is None:
        try:
            with open(os.path.join(os.path.dirname(os.path.abspath(__file__)), "baseline_locals.json")) as f:
                _BASE = json.load(f)
        except OSError:
            _BASE = {}
    return _BASE


def _rename(fn, ren: Dict[str, str]) -> None:
    def shadows(inner) -> set:
        s = _params(inner)
        if not isinstance(inner, ast.Lambda):
            nl = set()
            for n in _own(inner):
                if isinstance(n, ast.Nonlocal):
                    nl |= set(n.names)
            s |= {x[0] for x in sites(inner)} - nl
        return s

    def walk(node, active):
        for ch in ast.iter_child_nodes(node):
            if isinstance(ch, _SCOPES):
                # defaults and decorators are evaluated outside
                for d in ch.args.defaults + [k for k in ch.args.kw_defaults if k is not None] + list(getattr(ch, "decorator_list", [])):
                    walk_expr(d, active)
                inner = {k: v for k, v in active.items() if k not in shadows(ch)}
                if inner:
                    if isinstance(ch, ast.Lambda):
                        walk_expr(ch.body, inner)
                    else:
                        for s in ch.body:
                            walk_expr(s, inner)
                continue
            if isinstance(ch, ast.ClassDef):
                continue
            walk_expr(ch, active)

    def walk_expr(node, active):
        if isinstance(node, ast.Name) and node.id in active:
            node.id = active[node.id]
        elif isinstance(node, ast.ExceptHandler) and node.name in active:
            node.name = active[node.name]
        if isinstance(node, _SCOPES):
            # reached as a root (e.g. a default that is a lambda)
            holder = ast.Expr(value=node) if isinstance(node, ast.Lambda) else ast.Module(body=[node], type_ignores=[])
            walk(holder, active)
            return
        walk(node, active)

    body = [fn.body] if isinstance(fn, ast.Lambda) else fn.body
    for s in body:
        walk_expr(s, ren)


def locals_back(trees: Dict[str, ast.Module]) -> List[Tuple[str, str, str]]:
    from .inline import qualnames

    base = baseline()
    out = []
    for rel, tree in trees.items():
        b_rel = base.get(rel)
        if not b_rel:
            continue
        for qn, d, cls, outer in qualnames(tree):
            bl = b_rel.get(qn)
            if not bl:
                continue
            names_now = [x[0] for x in sites(d)]      # cheap; signatures only when a name differs from the pinned list
            if not names_now or names_now == [b[0] for b in bl]:
                continue
            cur = bindings(d)
            sm = difflib.SequenceMatcher(a=[b[1] for b in bl], b=[c[1] for c in cur], autojunk=False)
            votes: Dict[str, set] = {}
            for blk in sm.get_matching_blocks():
                for k in range(blk.size):
                    votes.setdefault(cur[blk.b + k][0], set()).add(bl[blk.a + k][0])
            cur_names = {x.id for x in ast.walk(d) if isinstance(x, ast.Name)} | {x.arg for x in ast.walk(d) if isinstance(x, ast.arg)}
            base_names = {b[0] for b in bl}
            ren = {}
            for nc, nbs in votes.items():
                if len(nbs) != 1:
                    continue
                nb = next(iter(nbs))
                if nb == nc or nb in cur_names or nc in base_names:
                    continue
                if nb in ren.values():
                    continue
                ren[nc] = nb
            if ren:
                _rename(d, ren)
                out.append((rel, qn, "locals renamed back: " + ", ".join(f"{a}->{b}" for a, b in sorted(ren.items()))))
    return out
