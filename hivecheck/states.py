"""Model of the VehicleState classes shared by the TS / GD rules (C02, C03, C07, C09, C10, C17)."""
from __future__ import annotations

import ast
from dataclasses import dataclass, field
from typing import Dict, List, Optional, Tuple

from . import AnalysisError, flow
from .loader import Repo, Func, Class

VS_DIR = "nrel/hive/state/vehicle_state/"

# resource methods: name -> (kind, direction)
RES = {
    "checkout_stall": ("stall", "A"),
    "return_stall": ("stall", "R"),
    "checkout_charger": ("plug", "A"),
    "return_charger": ("plug", "R"),
    "enqueue_for_charger": ("queue", "A"),
    "dequeue_for_charger": ("queue", "R"),
    "assign_dispatched_vehicle": ("assign", "A"),
    "unassign_dispatched_vehicle": ("assign", "R"),
    "pick_up_trip": ("pickup", "A"),
}

EXPECTED_STATE_CLASSES = {
    "Idle", "OutOfService", "Repositioning", "DispatchTrip", "ServicingTrip", "DispatchPoolingTrip",
    "ServicingPoolingTrip", "DispatchStation", "ChargingStation", "ChargeQueueing", "DispatchBase",
    "ReserveBase", "ChargingBase",
}


def _strip_replace(e: ast.AST) -> ast.AST:
    """`replace(X, k=v).f` / `X._replace(k=v).f` with f not among the replaced keys denotes `X.f`."""

    def f(n):
        if isinstance(n, ast.Attribute) and isinstance(n.value, ast.Call):
            v = n.value
            nm = v.func.attr if isinstance(v.func, ast.Attribute) else (v.func.id if isinstance(v.func, ast.Name) else None)
            kws = {k.arg for k in v.keywords}
            if nm == "replace" and v.args and n.attr not in kws and None not in kws:
                return ast.copy_location(ast.Attribute(value=v.args[0], attr=n.attr, ctx=n.ctx), n)
            if nm == "_replace" and isinstance(v.func, ast.Attribute) and n.attr not in kws and None not in kws:
                return ast.copy_location(ast.Attribute(value=v.func.value, attr=n.attr, ctx=n.ctx), n)
        return n

    return flow.rewrite(e, f)


def norm(e: ast.AST, rename: Optional[Dict[str, str]] = None) -> ast.AST:
    """Identity-normal form of an expanded expression: conditional None-guards stripped, reads through
    `replace(...)` resolved, parameters renamed to role names (SELF / SIM / ENV / NEXT)."""
    e = flow.core(e)
    e = _strip_replace(e)
    if rename:
        env = {k: ast.Name(id=v, ctx=ast.Load()) for k, v in rename.items()}
        e = flow.subst(e, env)
    return e


def ndump(e: ast.AST, rename=None) -> str:
    return flow.dump(norm(e, rename))


@dataclass
class ResUse:
    kind: str
    direction: str  # A | R
    target: str  # normalised dump of the receiver entity ("SIM.stations.get(SELF.station_id)")
    args: str
    event: flow.Event
    flows_to_result: bool


@dataclass
class MPath:
    path: flow.Path
    result: str  # success | reject | error | raise
    uses: List[ResUse] = field(default_factory=list)


class StateClass:
    def __init__(self, repo: Repo, cls: Class):
        self.repo = repo
        self.cls = cls
        self.name = cls.name
        self.enter = repo.method(cls, "enter")
        self.exit = repo.method(cls, "exit")
        if self.enter is None or self.exit is None or self.enter.cls is None or self.enter.cls.name in ("VehicleStateABC",):
            raise AnalysisError(f"state class {cls.name} lacks a concrete enter/exit")

    # parameter role names by position (the abstract signatures fix the positions)
    def rename(self, fn: Func) -> Dict[str, str]:
        ps = fn.params
        if fn.name == "enter":
            roles = ["SELF", "SIM", "ENV"]
        elif fn.name == "exit":
            roles = ["SELF", "NEXT", "SIM", "ENV"]
        else:
            roles = ["SELF", "SIM", "ENV"]
        return {p: r for p, r in zip(ps, roles)}

    def mpaths(self, which: str) -> List[MPath]:
        fn = self.enter if which == "enter" else self.exit
        out = []
        ren = self.rename(fn)
        for p in flow.paths(fn.node):
            if p.kind == "raise":
                res = "raise"
            elif p.kind == "fall":
                res = "reject"  # falls off the end: returns None -> caller sees a non-pair; treat as reject
            else:
                k = flow.classify_result(p.value)
                res = {"error": "error", "reject": "reject", "none": "reject", "ok": "success", "delegate": "success",
                       "pair": "success", "mixed": "success"}[k]
            mp = MPath(p, res)
            if res == "success":
                mp.uses = resource_uses(p, ren)
            out.append(mp)
        return out

    def success(self, which: str) -> List[MPath]:
        return [m for m in self.mpaths(which) if m.result == "success"]


def subtree_dumps(e: Optional[ast.AST]) -> set:
    if e is None:
        return set()
    return {ast.dump(n) for n in ast.walk(e) if isinstance(n, ast.expr)}


def resource_uses(p: flow.Path, ren: Dict[str, str]) -> List[ResUse]:
    uses = []
    vd = subtree_dumps(p.value)
    for ev in p.events:
        nm = ev.name
        if nm == "modify_vehicle_assignment":
            un = False
            for kw in ev.call.keywords:
                if kw.arg == "unassign":
                    un = not (isinstance(kw.value, ast.Constant) and kw.value.value is False)
            if len(ev.call.args) >= 4:
                a = ev.call.args[3]
                un = not (isinstance(a, ast.Constant) and a.value is False)
            target = ndump(ev.call.args[2], ren) if len(ev.call.args) >= 3 else "?"
            uses.append(ResUse("assign", "R" if un else "A", f"requests[{target}]", "", ev, ast.dump(ev.call) in vd))
            continue
        if nm not in RES or ev.deferred:
            continue
        kind, d = RES[nm]
        if nm == "pick_up_trip":
            target = ndump(ev.call.args[3], ren) if len(ev.call.args) >= 4 else "?"
            uses.append(ResUse(kind, d, f"request[{target}]", "", ev, ast.dump(ev.call) in vd))
            continue
        if not isinstance(ev.call.func, ast.Attribute):
            continue
        target = ndump(ev.call.func.value, ren)
        args = ", ".join(ndump(a, ren) for a in ev.call.args)
        if kind == "assign":
            args = ""
        uses.append(ResUse(kind, d, target, args, ev, ast.dump(ev.call) in vd))
    return uses


_CACHE: Dict[int, List[StateClass]] = {}


def state_classes(repo: Repo) -> List[StateClass]:
    if id(repo) in _CACHE:
        return _CACHE[id(repo)]
    out = []
    for c in repo.subclasses("VehicleState"):
        if not c.relpath.startswith(VS_DIR):
            continue
        if c.name in ("VehicleState", "VehicleStateABC", "Mixin"):
            continue
        out.append(StateClass(repo, c))
    names = {s.name for s in out}
    missing = EXPECTED_STATE_CLASSES - names
    if missing:
        raise AnalysisError(f"vehicle-state classes vanished: {sorted(missing)}")
    _CACHE[id(repo)] = out
    return out


def state_class(repo: Repo, name: str) -> StateClass:
    for s in state_classes(repo):
        if s.name == name:
            return s
    raise AnalysisError(f"state class {name} not found")


# ------------------------------------------------------------------------------ entity identity
def entity_kind(target_norm: str) -> Optional[str]:
    """Which collection an expanded entity expression is looked up in."""
    for coll, kind in (("vehicles", "vehicle"), ("stations", "station"), ("bases", "base"), ("requests", "request")):
        if f".{coll}.get(" in target_norm or f".{coll}[" in target_norm:
            # the outermost lookup decides
            idx = {c: target_norm.find(f".{c}.get(") for c in ("vehicles", "stations", "bases", "requests")}
            idx = {c: i for c, i in idx.items() if i >= 0}
            first = min(idx, key=idx.get)
            return {"vehicles": "vehicle", "stations": "station", "bases": "base", "requests": "request"}[first]
    return None
