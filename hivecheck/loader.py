"""Parse /repo/nrel/hive into modules / classes / functions with parent links and import maps."""
from __future__ import annotations

import ast
import hashlib
import os
from dataclasses import dataclass, field
from typing import Dict, Iterator, List, Optional, Tuple

from . import AnalysisError, PKG, REPO_DEFAULT


@dataclass
class Func:
    module: "Module"
    qualname: str  # e.g. "ChargingBase.enter" or "modify_vehicle_assignment._modify"
    node: ast.AST  # FunctionDef | AsyncFunctionDef | Lambda
    cls: Optional["Class"] = None
    outer: Optional["Func"] = None

    @property
    def name(self) -> str:
        return self.qualname.rsplit(".", 1)[-1]

    @property
    def relpath(self) -> str:
        return self.module.relpath

    @property
    def params(self) -> List[str]:
        a = self.node.args
        return [x.arg for x in a.posonlyargs + a.args] + ([a.vararg.arg] if a.vararg else []) + [
            x.arg for x in a.kwonlyargs
        ] + ([a.kwarg.arg] if a.kwarg else [])

    @property
    def lineno(self) -> int:
        return self.node.lineno

    def where(self, node: Optional[ast.AST] = None) -> str:
        ln = getattr(node, "lineno", None) if node is not None else self.node.lineno
        return f"{self.module.relpath}:{ln}"

    def __repr__(self) -> str:
        return f"<Func {self.module.relpath}::{self.qualname}>"

    def __hash__(self) -> int:
        return hash((self.module.relpath, self.qualname))

    def __eq__(self, o) -> bool:
        return isinstance(o, Func) and (o.module.relpath, o.qualname) == (self.module.relpath, self.qualname)


@dataclass
class Class:
    module: "Module"
    name: str
    node: ast.ClassDef
    bases: List[str] = field(default_factory=list)  # as written (last attribute component)
    methods: Dict[str, Func] = field(default_factory=dict)

    @property
    def relpath(self) -> str:
        return self.module.relpath

    def field_annotations(self) -> Dict[str, ast.AST]:
        out = {}
        for s in self.node.body:
            if isinstance(s, ast.AnnAssign) and isinstance(s.target, ast.Name):
                out[s.target.id] = s.annotation
        return out

    def decorator_names(self) -> List[str]:
        return [ast.unparse(d) for d in self.node.decorator_list]

    def __hash__(self) -> int:
        return hash((self.module.relpath, self.name))

    def __eq__(self, o) -> bool:
        return isinstance(o, Class) and (o.module.relpath, o.name) == (self.module.relpath, self.name)


@dataclass
class Module:
    relpath: str
    modname: str
    source: str
    tree: ast.Module
    funcs: Dict[str, Func] = field(default_factory=dict)
    classes: Dict[str, Class] = field(default_factory=dict)
    imports: Dict[str, str] = field(default_factory=dict)  # local name -> dotted target
    inlined: list = field(default_factory=list)  # [(new helper name, call line)] rewritten by inline.py

    def segment(self, node: ast.AST) -> str:
        return ast.get_source_segment(self.source, node) or ast.unparse(node)


def _set_parents(tree: ast.AST) -> None:
    for parent in ast.walk(tree):
        for child in ast.iter_child_nodes(parent):
            child._parent = parent  # type: ignore[attr-defined]


# Inlining of new pure helpers (inline.py). Off for the two typed analyses (C01, C16): their type lookups are keyed by
# source positions, which inlined expressions do not have; those checks follow calls interprocedurally instead.
INLINE = True


def set_inline_for(prop: str) -> None:
    global INLINE
    INLINE = prop.upper() not in ("C01", "C16")


def parent(node: ast.AST) -> Optional[ast.AST]:
    return getattr(node, "_parent", None)


def enclosing(node: ast.AST, kinds) -> Optional[ast.AST]:
    p = parent(node)
    while p is not None and not isinstance(p, kinds):
        p = parent(p)
    return p


class Repo:
    """All of nrel/hive (resource data excluded), parsed. `overlay` maps relpath -> source text and
    replaces what is on disk (used by the self-test to analyse variants without touching /repo)."""

    def __init__(self, root: str = None, overlay: Optional[Dict[str, str]] = None, extra_dirs=("examples",)):
        self.root = root or os.environ.get("HIVECHECK_REPO", REPO_DEFAULT)
        self.overlay = dict(overlay or {})
        self.modules: Dict[str, Module] = {}
        self.by_modname: Dict[str, Module] = {}
        self.class_index: Dict[str, List[Class]] = {}
        self.skipped: List[str] = []
        self._load(extra_dirs)

    # ------------------------------------------------------------------ loading
    def _iter_files(self, extra_dirs) -> Iterator[str]:
        base = os.path.join(self.root, PKG)
        if not os.path.isdir(base):
            raise AnalysisError(f"{base} does not exist")
        for top in [PKG] + [d for d in extra_dirs if os.path.isdir(os.path.join(self.root, d))]:
            for dp, dns, fns in os.walk(os.path.join(self.root, top)):
                dns.sort()
                rel = os.path.relpath(dp, self.root)
                if rel.startswith(os.path.join(PKG, "resources")) and not rel == os.path.join(PKG, "resources"):
                    # resource data (scenarios etc.); mock_lobster.py sits directly in resources/
                    continue
                for fn in sorted(fns):
                    if fn.endswith(".py"):
                        yield os.path.normpath(os.path.join(rel, fn))

    def _load(self, extra_dirs) -> None:
        seen = set()
        parsed = []
        for rel in list(self._iter_files(extra_dirs)) + sorted(self.overlay):
            if rel in seen:
                continue
            seen.add(rel)
            if rel in self.overlay:
                src = self.overlay[rel]
            else:
                with open(os.path.join(self.root, rel), encoding="utf-8") as f:
                    src = f.read()
            try:
                tree = ast.parse(src, filename=rel)
            except SyntaxError as e:
                raise AnalysisError(f"{rel} does not parse: {e}")
            parsed.append((rel, src, tree))
        sigs = None
        self.canon_counts = {}
        if INLINE:
            from . import canon as _canon

            sigs = _canon.Sigs()
            sigs.modules = set()
            for rel, src, tree in parsed:
                if rel.startswith(PKG):
                    mn = rel[:-3].replace(os.sep, ".")
                    sigs.modules.add(mn[: -len(".__init__")] if mn.endswith(".__init__") else mn)
                if rel.startswith(PKG) and not rel.startswith(PKG + "/resources"):
                    sigs.add_tree(tree)
            sigs.base_imports = None
            try:
                import json as _json

                with open(os.path.join(os.path.dirname(os.path.abspath(__file__)), "baseline_symbols.json")) as f:
                    bi = {}
                    for row in _json.load(f):
                        if isinstance(row[1], str) and row[1].startswith("import:") and row[2]:
                            bi.setdefault(row[0], {})[row[1][7:]] = row[2][0]
                    sigs.base_imports = bi
            except OSError:
                pass
        self.moved_back = []
        if INLINE:
            try:
                import json as _json

                with open(os.path.join(os.path.dirname(os.path.abspath(__file__)), "baseline_symbols.json")) as f:
                    rows = _json.load(f)
                pkg_trees = {rel: tree for rel, src, tree in parsed if rel.startswith(PKG) and not rel.startswith(PKG + "/resources")}
                self.moved_back = _canon.move_back(pkg_trees, rows)
                from .inline import inline_new_members
                from . import inline as _inl

                _inl.ALL_TREES = pkg_trees
                self.members_inlined = inline_new_members(pkg_trees)
            except OSError:
                pass
        for rel, src, tree in parsed:
            inlined = []
            if INLINE and rel.startswith(PKG):
                from .inline import inline_new_helpers, canonicalise_accumulate_loops, renest_lifted

                cn = _canon.canonicalise(tree, sigs, rel)
                for k, v in cn.items():
                    if v:
                        self.canon_counts[k] = self.canon_counts.get(k, 0) + v
                renested = renest_lifted(tree, rel)
                inlined = [(f"renested {x} <- {g}", 0) for x, g in renested] + inline_new_helpers(tree, rel)
                canonicalise_accumulate_loops(tree)
            _set_parents(tree)
            modname = rel[:-3].replace(os.sep, ".")
            if modname.endswith(".__init__"):
                modname = modname[: -len(".__init__")]
            m = Module(rel, modname, src, tree)
            m.inlined = inlined
            self._index_module(m)
            self.modules[rel] = m
            self.by_modname[modname] = m
        for m in self.modules.values():
            for c in m.classes.values():
                self.class_index.setdefault(c.name, []).append(c)
        self._register_new_functions()
        self._register_namedtuple_returns()

    def _register_new_functions(self) -> None:
        """Functions the pinned tree does not have (hivecheck/baseline_symbols.json), by name: the path enumerator splices their
        paths into their callers (flow.PathEnumerator._splice), and an anchor that was MOVED is found again by its name."""
        from .inline import baseline, qualnames

        base = baseline()
        reg: Dict[str, list] = {}
        self.new_functions: Dict[str, list] = reg
        if not base or not INLINE:
            return
        mods = set()
        for m in self.modules.values():
            if not m.relpath.startswith(PKG) or m.relpath.startswith(PKG + "/resources"):
                continue
            mods.add(m.modname.split(".")[-1])
            byq = {}
            for qn, d, cls, outer in qualnames(m.tree):
                byq[qn] = d
                if (m.relpath, qn) in base:
                    continue
                decs = [ast.unparse(x) for x in d.decorator_list]
                if any(x not in ("staticmethod", "classmethod") for x in decs):
                    continue
                if any(isinstance(x, (ast.Yield, ast.YieldFrom, ast.Await, ast.Global, ast.Nonlocal)) for x in ast.walk(d)):
                    continue
                # a method's class: the qualname prefix
                cname = qn.rsplit(".", 1)[0] if cls is not None else None
                reg.setdefault(d.name, []).append({"node": d, "module": m.tree, "relpath": m.relpath, "qualname": qn, "cls": cname.split(".")[-1] if cname else None,
                                                  "outer": byq.get(outer) if outer else None, "static": "staticmethod" in decs, "classmethod": "classmethod" in decs})
        if reg:
            reg["$modules"] = mods
            for m in self.modules.values():
                m.tree._splice = reg

    def _register_namedtuple_returns(self) -> None:
        from . import flow as _flow

        nts: Dict[str, List[str]] = {}
        for m in self.modules.values():
            if not m.relpath.startswith(PKG):
                continue
            for c in m.classes.values():
                if any((dotted(b) or "").split(".")[-1] == "NamedTuple" for b in c.node.bases):
                    nts[c.name] = [s.target.id for s in c.node.body if isinstance(s, ast.AnnAssign) and isinstance(s.target, ast.Name)]
        by_name: Dict[str, set] = {}
        for m in self.modules.values():
            if not m.relpath.startswith(PKG):
                continue
            for f in m.funcs.values():
                ret = getattr(f.node, "returns", None)
                if ret is None:
                    continue
                r = ret.value if isinstance(ret, ast.Constant) and isinstance(ret.value, str) else (dotted(ret) or "")
                r = str(r).split(".")[-1].strip("'\"")
                by_name.setdefault(f.name, set()).add(r)
        _flow.NT_RETURNS.clear()
        for name, rets in by_name.items():
            if len(rets) == 1:
                r = next(iter(rets))
                if r in nts and nts[r]:
                    _flow.NT_RETURNS[name] = nts[r]

    def _index_module(self, m: Module) -> None:
        is_pkg = m.relpath.endswith("__init__.py")
        for node in ast.walk(m.tree):
            if isinstance(node, ast.Import):
                for a in node.names:
                    m.imports[a.asname or a.name.split(".")[0]] = a.name if a.asname else a.name.split(".")[0]
            elif isinstance(node, ast.ImportFrom):
                base = node.module or ""
                if node.level:
                    parts = m.modname.split(".")
                    if not is_pkg:
                        parts = parts[:-1]
                    parts = parts[: len(parts) - (node.level - 1)] if node.level > 1 else parts
                    base = ".".join(parts + ([node.module] if node.module else []))
                for a in node.names:
                    m.imports[a.asname or a.name] = f"{base}.{a.name}"

        def visit(body, prefix: str, cls: Optional[Class], outer: Optional[Func]):
            for s in body:
                if isinstance(s, (ast.FunctionDef, ast.AsyncFunctionDef)):
                    qn = f"{prefix}{s.name}"
                    f = Func(m, qn, s, cls if outer is None else None, outer)
                    # a later definition with the same qualified name (overloads, redefinition) wins
                    m.funcs[qn] = f
                    s._func = f  # type: ignore[attr-defined]
                    if cls is not None and outer is None:
                        cls.methods[s.name] = f
                    visit_nested(s, qn + ".", f)
                elif isinstance(s, ast.ClassDef):
                    c = Class(m, s.name, s, [self._base_name(b) for b in s.bases])
                    if outer is None and cls is None:
                        m.classes[s.name] = c
                    else:
                        m.classes[f"{prefix}{s.name}"] = c
                    visit(s.body, f"{prefix}{s.name}.", c, None)
                elif isinstance(s, (ast.If, ast.Try, ast.With, ast.For, ast.While)):
                    for sub in _sub_bodies(s):
                        visit(sub, prefix, cls, outer)

        def visit_nested(fn, prefix: str, outer: Func):
            # nested defs anywhere inside the function body (not inside nested classes' methods)
            for s in _walk_stmts(fn.body):
                if isinstance(s, (ast.FunctionDef, ast.AsyncFunctionDef)):
                    qn = f"{prefix}{s.name}"
                    f = Func(m, qn, s, None, outer)
                    m.funcs[qn] = f
                    s._func = f  # type: ignore[attr-defined]
                    visit_nested(s, qn + ".", f)

        visit(m.tree.body, "", None, None)

    @staticmethod
    def _base_name(b: ast.AST) -> str:
        if isinstance(b, ast.Subscript):
            b = b.value
        if isinstance(b, ast.Attribute):
            return b.attr
        if isinstance(b, ast.Name):
            return b.id
        return ast.unparse(b)

    # ------------------------------------------------------------------ queries
    def module(self, relpath: str) -> Module:
        m = self.modules.get(relpath)
        if m is None:
            raise AnalysisError(f"anchor module vanished: {relpath}")
        return m

    def func(self, relpath: str, qualname: str) -> Func:
        f = self.module(relpath).funcs.get(qualname)
        if f is None:
            raise AnalysisError(f"anchor function vanished: {relpath}::{qualname}")
        return f

    def func_opt(self, relpath: str, qualname: str) -> Optional[Func]:
        m = self.modules.get(relpath)
        return m.funcs.get(qualname) if m else None

    def cls(self, relpath: str, name: str) -> Class:
        c = self.module(relpath).classes.get(name)
        if c is None:
            raise AnalysisError(f"anchor class vanished: {relpath}::{name}")
        return c

    def resolve_call(self, m: "Module", call: ast.Call) -> Optional[Func]:
        """The module-level repository function a call names, through the module's own definitions and its import
        table (`f(...)`, `mod.f(...)`); None for methods, builtins and anything outside the repository."""
        d = dotted(call.func)
        if d is None:
            return None
        if "." not in d and d in m.funcs and m.funcs[d].cls is None and m.funcs[d].outer is None:
            return m.funcs[d]
        fq = fq_dotted(m, call.func) or ""
        modname, _, name = fq.rpartition(".")
        tm = self.by_modname.get(modname)
        if tm is not None:
            f = tm.funcs.get(name)
            if f is not None and f.cls is None and f.outer is None:
                return f
            # re-exported through a package __init__
            if name in tm.imports and tm.imports[name] != fq:
                modname2, _, name2 = tm.imports[name].rpartition(".")
                tm2 = self.by_modname.get(modname2)
                if tm2 is not None:
                    f = tm2.funcs.get(name2)
                    if f is not None and f.cls is None and f.outer is None:
                        return f
        return None

    def all_funcs(self, pkg_only: bool = True) -> Iterator[Func]:
        for rel, m in self.modules.items():
            if pkg_only and not rel.startswith(PKG):
                continue
            yield from m.funcs.values()

    def pkg_modules(self) -> Iterator[Module]:
        for rel, m in self.modules.items():
            if rel.startswith(PKG):
                yield m

    def ancestors(self, c: Class) -> List[Class]:
        """All (transitive) base classes found in the repo, name-resolved; c itself excluded."""
        out: List[Class] = []
        seen = {(c.relpath, c.name)}
        work = list(c.bases)
        while work:
            b = work.pop()
            for cand in self.class_index.get(b, []):
                k = (cand.relpath, cand.name)
                if k not in seen:
                    seen.add(k)
                    out.append(cand)
                    work.extend(cand.bases)
        return out

    def base_names(self, c: Class) -> set:
        names = set(c.bases)
        for a in self.ancestors(c):
            names.add(a.name)
            names.update(a.bases)
        return names

    def subclasses(self, base_name: str, pkg_only: bool = True) -> List[Class]:
        out = []
        for m in (self.pkg_modules() if pkg_only else self.modules.values()):
            for c in m.classes.values():
                if base_name in self.base_names(c):
                    out.append(c)
        return sorted(out, key=lambda c: (c.relpath, c.name))

    def method(self, c: Class, name: str) -> Optional[Func]:
        """Method lookup through the (name-resolved) MRO approximation."""
        if name in c.methods:
            return c.methods[name]
        for a in self.ancestors(c):
            if name in a.methods:
                return a.methods[name]
        return None

    def digest(self, relpaths=None) -> str:
        h = hashlib.sha256()
        for rel in sorted(relpaths or self.modules):
            h.update(rel.encode())
            h.update(b"\0")
            h.update(self.modules[rel].source.encode())
            h.update(b"\0")
        return h.hexdigest()

    def stats(self) -> dict:
        pk = [m for m in self.pkg_modules()]
        return {
            "modules": len(pk),
            "functions": sum(len(m.funcs) for m in pk),
            "classes": sum(len(m.classes) for m in pk),
            "lines": sum(m.source.count("\n") + 1 for m in pk),
        }


def _sub_bodies(s: ast.stmt):
    for fld in ("body", "orelse", "finalbody"):
        b = getattr(s, fld, None)
        if b:
            yield b
    for h in getattr(s, "handlers", []) or []:
        yield h.body


def _walk_stmts(body) -> Iterator[ast.stmt]:
    """Statements of a function body, descending into compound statements but not into nested
    function/class definitions (those are yielded, not entered)."""
    for s in body:
        yield s
        if isinstance(s, (ast.FunctionDef, ast.AsyncFunctionDef, ast.ClassDef)):
            continue
        for sub in _sub_bodies(s):
            yield from _walk_stmts(sub)


def walk_stmts(fn_node) -> Iterator[ast.stmt]:
    return _walk_stmts(fn_node.body)


def walk_exprs(fn_node, into_nested: bool = False) -> Iterator[ast.AST]:
    """All nodes under a function, optionally not descending into nested defs/lambdas."""
    stack = list(reversed(fn_node.body)) if hasattr(fn_node, "body") and isinstance(fn_node.body, list) else [fn_node.body]
    while stack:
        n = stack.pop()
        yield n
        for ch in ast.iter_child_nodes(n):
            if not into_nested and isinstance(ch, (ast.FunctionDef, ast.AsyncFunctionDef, ast.ClassDef, ast.Lambda)):
                yield ch  # yield the def node itself, do not enter
                continue
            stack.append(ch)


def call_name(call: ast.Call) -> Optional[str]:
    f = call.func
    if isinstance(f, ast.Attribute):
        return f.attr
    if isinstance(f, ast.Name):
        return f.id
    return None


def fq_dotted(m: "Module", e: ast.AST) -> Optional[str]:
    """dotted(e) with its head resolved through the module's import table (`np.random.x` -> `numpy.random.x`,
    `from random import choice as c; c` -> `random.choice`)."""
    d = dotted(e)
    if d is None:
        return None
    head, _, rest = d.partition(".")
    if head in m.imports:
        return m.imports[head] + ("." + rest if rest else "")
    return d


def dotted(e: ast.AST) -> Optional[str]:
    parts = []
    while isinstance(e, ast.Attribute):
        parts.append(e.attr)
        e = e.value
    if isinstance(e, ast.Name):
        parts.append(e.id)
        return ".".join(reversed(parts))
    return None
