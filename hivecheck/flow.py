"""Path-sensitive, syntax-directed flow analysis for the statement kinds nrel/hive uses.

For a function it enumerates the structured paths to every `return` / `raise` / fall-through and,
along each path, keeps
  * the branch conditions (test expression, polarity),
  * the ordered call events,
  * a symbolic environment mapping each local to the expression that defines it *on this path*
    (so every use has exactly one reaching definition: provenance is exact per path).
Loops are entered zero or one time; `try` bodies run normally or a handler starts from the state at
`try`; conditional expressions stay in the values (see `implied`, `core`).  Nothing is executed.
"""
from __future__ import annotations

import ast
from dataclasses import dataclass, field
from typing import Dict, Iterable, Iterator, List, Optional, Sequence, Tuple

from . import AnalysisError

MAX_PATHS = 4000
MAX_NODES = 1500


# ----------------------------------------------------------------------------- helpers on exprs
def size(e: ast.AST) -> int:
    s = getattr(e, "_sz", None)
    if s is None:
        s = 1 + sum(size(c) for c in ast.iter_child_nodes(e))
        try:
            e._sz = s  # type: ignore[attr-defined]
        except Exception:
            pass
    return s


def syn(name: str, *args: ast.AST, at: Optional[ast.AST] = None) -> ast.Call:
    """Synthetic operator node, e.g. $elem(iterable): an element of the iterable."""
    n = ast.Call(func=ast.Name(id=name, ctx=ast.Load()), args=list(args), keywords=[])
    if at is not None:
        ast.copy_location(n, at)
        ast.copy_location(n.func, at)
    return n


def is_syn(e: ast.AST, name: str) -> bool:
    return isinstance(e, ast.Call) and isinstance(e.func, ast.Name) and e.func.id == name


# callee name -> field names, for functions declared to return a NamedTuple class of the repository (filled by the loader):
# unpacking such a result (`entities, locations, search = f(...)`) reads as the attribute accesses it stands for
NT_RETURNS: Dict[str, List[str]] = {}


def proj(value: ast.AST, i: int, at: ast.AST) -> ast.AST:
    if isinstance(value, (ast.Tuple, ast.List)) and i < len(value.elts) and not any(
        isinstance(x, ast.Starred) for x in value.elts
    ):
        return value.elts[i]
    if isinstance(value, ast.Call):
        nm = value.func.attr if isinstance(value.func, ast.Attribute) else getattr(value.func, "id", None)
        fields = NT_RETURNS.get(nm or "")
        if fields and i < len(fields):
            n = ast.Attribute(value=value, attr=fields[i], ctx=ast.Load())
            ast.copy_location(n, at)
            return n
    n = ast.Subscript(value=value, slice=ast.Constant(value=i), ctx=ast.Load())
    ast.copy_location(n, at)
    return n


def _lambda_params(a: ast.arguments) -> set:
    s = {x.arg for x in a.posonlyargs + a.args + a.kwonlyargs}
    if a.vararg:
        s.add(a.vararg.arg)
    if a.kwarg:
        s.add(a.kwarg.arg)
    return s


def target_names(t: ast.AST) -> set:
    return {n.id for n in ast.walk(t) if isinstance(n, ast.Name)}


def subst(node, env: Dict[str, ast.AST], shadow: frozenset = frozenset()):
    """Structure-sharing substitution of Load-names by their symbolic definitions."""
    if not env:
        return node
    if isinstance(node, ast.Name):
        if isinstance(node.ctx, ast.Load) and node.id not in shadow:
            v = env.get(node.id)
            return v if v is not None else node
        return node
    if isinstance(node, ast.Constant):
        return node
    if isinstance(node, ast.Lambda):
        sh = shadow | _lambda_params(node.args)
        body = subst(node.body, env, sh)
        if body is node.body:
            return node
        n = ast.Lambda(args=node.args, body=body)
        return ast.copy_location(n, node)
    if isinstance(node, (ast.ListComp, ast.SetComp, ast.GeneratorExp, ast.DictComp)):
        sh = shadow
        gens = []
        changed = False
        for g in node.generators:
            it = subst(g.iter, env, sh)
            sh = sh | target_names(g.target)
            ifs = [subst(i, env, sh) for i in g.ifs]
            if it is not g.iter or any(a is not b for a, b in zip(ifs, g.ifs)):
                changed = True
                g2 = ast.comprehension(target=g.target, iter=it, ifs=ifs, is_async=g.is_async)
                gens.append(g2)
            else:
                gens.append(g)
        if isinstance(node, ast.DictComp):
            k = subst(node.key, env, sh)
            v = subst(node.value, env, sh)
            if not changed and k is node.key and v is node.value:
                return node
            n = ast.DictComp(key=k, value=v, generators=gens)
        else:
            el = subst(node.elt, env, sh)
            if not changed and el is node.elt:
                return node
            n = type(node)(elt=el, generators=gens)
        return ast.copy_location(n, node)
    if not isinstance(node, ast.AST):
        return node
    changed = False
    vals = {}
    for fld, old in ast.iter_fields(node):
        if isinstance(old, list):
            new = [subst(x, env, shadow) if isinstance(x, ast.AST) else x for x in old]
            if any(a is not b for a, b in zip(new, old)):
                changed = True
            vals[fld] = new
        elif isinstance(old, ast.AST):
            new = subst(old, env, shadow)
            if new is not old:
                changed = True
            vals[fld] = new
        else:
            vals[fld] = old
    if not changed:
        return node
    n = type(node)(**vals)
    if hasattr(node, "lineno"):
        ast.copy_location(n, node)
    # a callable value that has just become a lambda and is applied on the spot (`next_step(x)` with next_step bound to
    # `lambda s: F(s, env)`): the application is the lambda's body with its parameters bound (beta step)
    if isinstance(n, ast.Call) and isinstance(n.func, ast.Lambda) and not isinstance(node.func, ast.Lambda) and not n.keywords \
            and not any(isinstance(a, ast.Starred) for a in n.args):
        la = n.func.args
        if not (la.vararg or la.kwarg or la.kwonlyargs or la.posonlyargs or la.defaults) and len(la.args) == len(n.args):
            return subst(n.func.body, {p_.arg: a_ for p_, a_ in zip(la.args, n.args)})
    return n


def dump(e: Optional[ast.AST]) -> str:
    if e is None:
        return "<none>"
    try:
        return ast.unparse(e)
    except Exception:
        return ast.dump(e)


def same(a: ast.AST, b: ast.AST) -> bool:
    return ast.dump(a) == ast.dump(b)


def is_none(e: ast.AST) -> bool:
    return isinstance(e, ast.Constant) and e.value is None


def is_falsy_const(e: ast.AST) -> bool:
    return isinstance(e, ast.Constant) and not e.value


def rewrite(node, fn):
    """Bottom-up, structure-sharing rewrite: children first, then fn(node) -> node. Never mutates and
    never copies parent links (a deepcopy would drag the whole module along through `_parent`)."""
    if not isinstance(node, ast.AST):
        return node
    changed = False
    vals = {}
    for fld, old in ast.iter_fields(node):
        if isinstance(old, list):
            new = [rewrite(x, fn) if isinstance(x, ast.AST) else x for x in old]
            if any(a is not b for a, b in zip(new, old)):
                changed = True
            vals[fld] = new
        elif isinstance(old, ast.AST):
            new = rewrite(old, fn)
            if new is not old:
                changed = True
            vals[fld] = new
        else:
            vals[fld] = old
    if changed:
        n = type(node)(**vals)
        if hasattr(node, "lineno"):
            ast.copy_location(n, node)
        node = n
    return fn(node)


def core(e: ast.AST) -> ast.AST:
    """Identity-normal form: `x if c else None` denotes x whenever it denotes anything; strip such
    guards (recursively) so that two spellings of 'the station of this base' compare equal."""

    def f(n):
        if isinstance(n, ast.IfExp):
            if is_falsy_const(n.orelse):
                return n.body
            if is_falsy_const(n.body):
                return n.orelse
        return n

    return rewrite(e, f)


def implied(test: ast.AST, pol: bool) -> List[Tuple[ast.AST, bool]]:
    """Atoms (expr, polarity) that necessarily hold when `test` evaluates with truthiness `pol`."""
    out: List[Tuple[ast.AST, bool]] = []

    def go(t, p):
        if isinstance(t, ast.UnaryOp) and isinstance(t.op, ast.Not):
            go(t.operand, not p)
        elif isinstance(t, ast.BoolOp) and isinstance(t.op, ast.And) and p:
            for v in t.values:
                go(v, True)
        elif isinstance(t, ast.BoolOp) and isinstance(t.op, ast.Or) and not p:
            for v in t.values:
                go(v, False)
        elif isinstance(t, ast.Call) and isinstance(t.func, ast.Name) and t.func.id == "bool" and len(t.args) == 1 and not t.keywords:
            go(t.args[0], p)
        elif isinstance(t, ast.IfExp) and p and is_falsy_const(t.orelse):
            go(t.test, True)
            go(t.body, True)
        elif isinstance(t, ast.IfExp) and p and is_falsy_const(t.body):
            go(t.test, False)
            go(t.orelse, True)
        elif isinstance(t, ast.Compare) and len(t.ops) == 1 and isinstance(t.ops[0], (ast.Is, ast.IsNot)) and is_none(
            t.comparators[0]
        ):
            # `x is None` / `x is not None` normalised to a pseudo-atom on x
            isnone = isinstance(t.ops[0], ast.Is) == p
            out.append((syn("$isnone", t.left, at=t), isnone))
            if not isnone:
                pass
            else:
                out.append((t.left, False))
        else:
            out.append((t, p))
            if p and not isinstance(t, ast.Constant):
                # a truthy value is not None
                out.append((syn("$isnone", t, at=t), False))

    go(test, pol)
    return out


def _exact(t: ast.AST, p: bool) -> bool:
    """Is `implied(t, p)` equivalent to (not merely implied by) t having truthiness p?"""
    if isinstance(t, ast.UnaryOp) and isinstance(t.op, ast.Not):
        return _exact(t.operand, not p)
    if isinstance(t, ast.BoolOp):
        if isinstance(t.op, ast.And) == p:
            return all(_exact(v, p) for v in t.values)
        return False
    if isinstance(t, ast.IfExp):
        return False
    return True


def _known(t: ast.AST, p: bool, have: set) -> bool:
    if not _exact(t, p):
        return False
    atoms = implied(t, p)
    # the primary atom(s) only: drop the derived `$isnone(x) False` companions of truthy atoms
    prim = [(a, pol) for a, pol in atoms if not (is_syn(a, "$isnone") and pol is False and any(
        (b is not a) and pol2 is True and ast.dump(b) == ast.dump(a.args[0]) for b, pol2 in atoms))]
    return bool(prim) and all((ast.dump(a), pol) in have for a, pol in prim)


# ----------------------------------------------------------------------------- pattern matching
def pat(src: str) -> ast.AST:
    """An expected expression, in the canonical spelling the loader gives the code (lambda parameters by position, canon pass A)."""
    t = ast.parse(src, mode="eval")
    if "lambda" in src:
        from .canon import _Alpha

        _Alpha().visit(t)
    return t.body


def match(pattern, node, b: Optional[Dict[str, ast.AST]] = None) -> Optional[Dict[str, ast.AST]]:
    """Unify `pattern` (names starting with `M_` are metavariables, `ANY` matches anything) with
    `node`. Returns bindings or None."""
    if isinstance(pattern, str):
        pattern = pat(pattern)
    b = {} if b is None else b
    return b if _m(pattern, node, b) else None


def _m(p, n, b) -> bool:
    if isinstance(p, ast.Name) and p.id == "ANY":
        return True
    if isinstance(p, ast.Name) and p.id.startswith("M_"):
        if p.id in b:
            return isinstance(n, ast.AST) and same(b[p.id], n)
        if not isinstance(n, ast.AST):
            return False
        b[p.id] = n
        return True
    if type(p) is not type(n):
        return False
    if isinstance(p, ast.AST):
        for fld, pv in ast.iter_fields(p):
            if fld in ("ctx", "type_comment", "kind", "lineno", "col_offset", "end_lineno", "end_col_offset"):
                continue
            nv = getattr(n, fld, None)
            if isinstance(pv, list):
                if not isinstance(nv, list) or len(pv) != len(nv):
                    return False
                for x, y in zip(pv, nv):
                    if not _m(x, y, b):
                        return False
            elif isinstance(pv, ast.AST):
                if not isinstance(nv, ast.AST) or not _m(pv, nv, b):
                    return False
            else:
                if pv != nv:
                    return False
        return True
    return p == n


def find(pattern, node) -> Iterator[Tuple[ast.AST, Dict[str, ast.AST]]]:
    if isinstance(pattern, str):
        pattern = pat(pattern)
    for sub in ast.walk(node):
        b = match(pattern, sub)
        if b is not None:
            yield sub, b


def contains(node: ast.AST, pattern) -> bool:
    for _ in find(pattern, node):
        return True
    return False


def calls_in(node: ast.AST, name: Optional[str] = None) -> List[ast.Call]:
    out = []
    for n in ast.walk(node):
        if isinstance(n, ast.Call):
            f = n.func
            nm = f.attr if isinstance(f, ast.Attribute) else (f.id if isinstance(f, ast.Name) else None)
            if name is None or nm == name:
                out.append(n)
    return out


# ----------------------------------------------------------------------------- paths
@dataclass
class Cond:
    raw: ast.AST  # the test as written (or the loop / handler node)
    test: Optional[ast.AST]  # expanded test (None for loop / except markers)
    pol: object  # True / False / 'iter' / 'skip' / 'except' / 'assert'


@dataclass
class Event:
    raw: ast.Call
    call: ast.Call  # expanded
    stmt: ast.stmt
    deferred: bool  # inside a lambda / comprehension / conditional arm: may not run here
    name: Optional[str] = None

    @property
    def lineno(self) -> int:
        return getattr(self.raw, "lineno", 0)


@dataclass
class Store:
    raw: ast.AST  # target as written (Attribute / Subscript)
    target: ast.AST  # expanded
    value: Optional[ast.AST]
    stmt: ast.stmt


@dataclass
class Path:
    kind: str  # 'return' | 'raise' | 'fall'
    end: Optional[ast.stmt]
    value: Optional[ast.AST]  # expanded return value / raised exception
    conds: List[Cond]
    events: List[Event]
    stores: List[Store]
    env: Dict[str, ast.AST]
    stmts: List[ast.stmt]
    closures: Dict[str, Dict[str, ast.AST]] = field(default_factory=dict)

    @property
    def lineno(self) -> int:
        return getattr(self.end, "lineno", 0)

    def facts(self) -> List[Tuple[ast.AST, bool]]:
        """Atoms that hold on this path: what each branch condition implies, closed under unit
        propagation (`not (A and B)` with A known true gives `not B`; `A or B` with A known false
        gives B)."""
        cached = getattr(self, "_facts", None)
        if cached is not None:
            return cached
        out: List[Tuple[ast.AST, bool]] = []
        have = set()

        def add(atoms):
            new = False
            for a, pol in atoms:
                k = (ast.dump(a), pol)
                if k not in have:
                    have.add(k)
                    out.append((a, pol))
                    new = True
            return new

        pending = []  # (values, pol_that_one_of_them_must_have)
        def collect(t, p):
            # disjunctive residue of a condition: And false -> some conjunct false; Or true -> some disjunct true
            if isinstance(t, ast.UnaryOp) and isinstance(t.op, ast.Not):
                collect(t.operand, not p)
            elif isinstance(t, ast.BoolOp) and isinstance(t.op, ast.And):
                if p:
                    for v in t.values:
                        collect(v, True)
                else:
                    pending.append((t.values, False))
            elif isinstance(t, ast.BoolOp) and isinstance(t.op, ast.Or):
                if not p:
                    for v in t.values:
                        collect(v, False)
                else:
                    pending.append((t.values, True))

        for c in self.conds:
            if c.test is not None and isinstance(c.pol, bool):
                add(implied(c.test, c.pol))
                collect(c.test, c.pol)
        changed = True
        while changed and pending:
            changed = False
            for values, want in list(pending):
                undecided = []
                satisfied = False
                for v in values:
                    if _known(v, want, have):
                        satisfied = True
                        break
                    if not _known(v, not want, have):
                        undecided.append(v)
                if satisfied:
                    pending.remove((values, want))
                    continue
                if len(undecided) == 1:
                    pending.remove((values, want))
                    if add(implied(undecided[0], want)):
                        changed = True
                    collect(undecided[0], want)
        self._facts = out
        self._pending = pending
        return out

    def fact_cases(self, limit: int = 64) -> List[List[Tuple[ast.AST, bool]]]:
        """Case split over the disjunctive residue of the path condition (`not (A and B)` = not A or
        not B): one fact list per way of satisfying every residual clause. A predicate that must hold on
        the path has to hold in every case."""
        base = self.facts()
        pending = getattr(self, "_pending", [])
        if not pending:
            return [base]
        import itertools

        combos = list(itertools.islice(itertools.product(*[[(v, want) for v in values] for values, want in pending]), limit + 1))
        if len(combos) > limit:
            return [base]
        out = []
        for combo in combos:
            facts = list(base)
            for v, want in combo:
                facts.extend(implied(v, want))
            out.append(facts)
        return out

    def has_marker(self, pol: str) -> bool:
        return any(c.pol == pol for c in self.conds)

    def calls(self, name: str, deferred: bool = True) -> List[Event]:
        return [e for e in self.events if e.name == name and (deferred or not e.deferred)]

    def cond_text(self) -> str:
        parts = []
        for c in self.conds:
            if isinstance(c.pol, bool):
                parts.append(("" if c.pol else "not ") + "(" + dump(c.raw)[:90] + ")")
            else:
                parts.append(f"<{c.pol}@{getattr(c.raw, 'lineno', '?')}>")
        return " and ".join(parts) if parts else "<unconditional>"


class _State:
    __slots__ = ("conds", "events", "stores", "env", "stmts", "closures", "brk")

    def __init__(self, conds=(), events=(), stores=(), env=None, stmts=(), closures=None):
        self.conds = list(conds)
        self.events = list(events)
        self.stores = list(stores)
        self.env = dict(env or {})
        self.stmts = list(stmts)
        self.closures = dict(closures or {})
        self.brk = None

    def fork(self) -> "_State":
        s = _State(self.conds, self.events, self.stores, self.env, self.stmts, self.closures)
        return s


_DEFER_PARENTS = (ast.Lambda, ast.ListComp, ast.SetComp, ast.DictComp, ast.GeneratorExp)


def _events_of(expr_or_stmt: ast.AST, env, stmt) -> List[Event]:
    """Calls inside a raw expression, post-order (arguments before the call), expanded by env."""
    out: List[Event] = []

    def go(n, deferred, shadow):
        if isinstance(n, (ast.FunctionDef, ast.AsyncFunctionDef, ast.ClassDef)):
            return
        if isinstance(n, ast.Lambda):
            go(n.body, True, shadow | _lambda_params(n.args))
            return
        if isinstance(n, (ast.ListComp, ast.SetComp, ast.GeneratorExp, ast.DictComp)):
            sh = shadow
            for g in n.generators:
                go(g.iter, deferred, sh)
                sh = sh | target_names(g.target)
                for i in g.ifs:
                    go(i, True, sh)
            if isinstance(n, ast.DictComp):
                go(n.key, True, sh)
                go(n.value, True, sh)
            else:
                go(n.elt, True, sh)
            return
        if isinstance(n, ast.IfExp):
            go(n.test, deferred, shadow)
            go(n.body, True, shadow)
            go(n.orelse, True, shadow)
            return
        if isinstance(n, ast.BoolOp):
            for i, v in enumerate(n.values):
                go(v, deferred or i > 0, shadow)
            return
        for ch in ast.iter_child_nodes(n):
            go(ch, deferred, shadow)
        if isinstance(n, ast.Call):
            f = n.func
            nm = f.attr if isinstance(f, ast.Attribute) else (f.id if isinstance(f, ast.Name) else None)
            out.append(Event(n, subst(n, env, frozenset(shadow)), stmt, deferred, nm))

    go(expr_or_stmt, False, frozenset())
    return out


def _atom_key(e: ast.AST):
    """(text, polarity) with `not`, `is not None` and `!=` folded into the polarity"""
    pol = True
    while isinstance(e, ast.UnaryOp) and isinstance(e.op, ast.Not):
        e = e.operand
        pol = not pol
    if isinstance(e, ast.Compare) and len(e.ops) == 1 and isinstance(e.ops[0], (ast.Eq, ast.NotEq)) and is_none(e.comparators[0]):
        # `x == None` reads as `x is None`
        e = ast.Compare(left=e.left, ops=[ast.Is() if isinstance(e.ops[0], ast.Eq) else ast.IsNot()], comparators=e.comparators)
    if isinstance(e, ast.Compare) and len(e.ops) == 1 and isinstance(e.ops[0], (ast.IsNot, ast.NotEq, ast.NotIn)):
        op = {ast.IsNot: ast.Is, ast.NotEq: ast.Eq, ast.NotIn: ast.In}[type(e.ops[0])]()
        e = ast.Compare(left=e.left, ops=[op], comparators=e.comparators)
        pol = not pol
    return dump(e), pol


def _decided(conds, test: ast.AST) -> Optional[bool]:
    """Truth of `test` when an earlier condition of the same path already decided the very same (side-effect free) expression: only
    the consistent branch is a path. Arises when a helper's result is tested again by its caller (spliced helpers)."""
    if any(isinstance(x, ast.Call) and (getattr(x.func, "attr", None) or getattr(x.func, "id", "")) in ("next", "pop", "popitem", "random", "file_report") for x in ast.walk(test)):
        return None
    k, pol = _atom_key(test)
    if len(k) < 6:
        return None
    for c in reversed(conds):
        if isinstance(c.pol, bool) and c.test is not None:
            k2, pol2 = _atom_key(c.test)
            if k2 == k:
                return c.pol if pol2 == pol else (not c.pol)
        elif c.pol in ("iter",):
            break  # a loop iteration in between: names may have been rebound
    return None


def _const_truth(e: ast.AST) -> Optional[bool]:
    """Truth value of a test that became a literal after substitution (`x = False ... if not x:`): only the feasible
    branch is a path. None when it is not a literal."""
    if isinstance(e, ast.Constant) and (e.value is None or isinstance(e.value, (bool, int, float, str))):
        return bool(e.value)
    if isinstance(e, ast.UnaryOp) and isinstance(e.op, ast.Not):
        t = _const_truth(e.operand)
        return None if t is None else (not t)
    # a freshly constructed object (`SimulationStateError(...)`, `Failure(...)`, a tuple / f-string) is neither None nor falsy
    if isinstance(e, ast.Compare) and len(e.ops) == 1 and isinstance(e.ops[0], (ast.Is, ast.IsNot)) and is_none(e.comparators[0]):
        k = _constructed(e.left)
        if k is True:
            return isinstance(e.ops[0], ast.IsNot)
        if is_none(e.left):
            return isinstance(e.ops[0], ast.Is)
    if _constructed(e) is True and isinstance(e, ast.Call):
        nm = e.func.attr if isinstance(e.func, ast.Attribute) else getattr(e.func, "id", "")
        if nm.endswith(("Error", "Exception")):
            return True
    # `A or B` with one operand known true, `A and B` with one operand known false (or every operand known)
    if isinstance(e, ast.BoolOp):
        ts = [_const_truth(v) for v in e.values]
        if isinstance(e.op, ast.Or):
            if any(t is True for t in ts):
                return True
            if all(t is False for t in ts):
                return False
        else:
            if any(t is False for t in ts):
                return False
            if all(t is True for t in ts):
                return True
    return None


def _constructed(e: ast.AST) -> Optional[bool]:
    """True when `e` certainly denotes a new (non-None) object: a call of a class by the naming convention (capitalised,
    no underscore prefix), an f-string, a non-empty tuple / list display."""
    if isinstance(e, ast.Call):
        nm = e.func.attr if isinstance(e.func, ast.Attribute) else getattr(e.func, "id", "")
        if nm[:1].isupper() and nm not in ("Optional",):
            return True
    if isinstance(e, (ast.JoinedStr,)):
        return True
    if isinstance(e, (ast.Tuple, ast.List)) and e.elts:
        return True
    return None


class PathEnumerator:
    def __init__(self, fn_node, init_env: Optional[Dict[str, ast.AST]] = None, max_paths: int = MAX_PATHS):
        self.fn = fn_node
        self.init_env = dict(init_env or {})
        self.max_paths = max_paths
        self.out: List[Path] = []
        self.depth = 0
        self._ctx = None

    def run(self) -> List[Path]:
        if isinstance(self.fn, ast.Lambda):
            st = _State(env=self.init_env)
            self._drop_params(st)
            st.events.extend(_events_of(self.fn.body, st.env, self.fn.body))
            self.out.append(
                Path("return", None, subst(self.fn.body, st.env), st.conds, st.events, st.stores, st.env, st.stmts)
            )
            return self.out
        st = _State(env=self.init_env)
        self._drop_params(st)
        live = self._block(self.fn.body, [st])
        for s in live:
            self._emit("fall", None, None, s)
        return self.out

    def _drop_params(self, st: _State):
        for p in _lambda_params(self.fn.args):
            st.env.pop(p, None)

    # -- emission
    def _emit(self, kind, end, value, st: _State):
        self.out.append(Path(kind, end, value, st.conds, st.events, st.stores, st.env, st.stmts, st.closures))
        if len(self.out) > self.max_paths:
            raise AnalysisError(
                f"path explosion (> {self.max_paths}) in function at line {getattr(self.fn, 'lineno', '?')}"
            )

    # -- binding
    def _bind(self, st: _State, target: ast.AST, value: ast.AST, stmt):
        if isinstance(target, ast.Name):
            if size(value) > MAX_NODES:
                value = ast.copy_location(ast.Name(id=f"$big:{target.id}@{getattr(stmt, 'lineno', 0)}", ctx=ast.Load()), stmt)
            st.env[target.id] = value
        elif isinstance(target, (ast.Tuple, ast.List)):
            for i, t in enumerate(target.elts):
                if isinstance(t, ast.Starred):
                    self._bind(st, t.value, syn("$rest", value, at=stmt), stmt)
                else:
                    self._bind(st, t, proj(value, i, stmt), stmt)
        elif isinstance(target, (ast.Attribute, ast.Subscript)):
            st.stores.append(Store(target, subst(target, st.env), value, stmt))
        elif isinstance(target, ast.Starred):
            self._bind(st, target.value, value, stmt)

    # -- splicing of new functions
    def _context(self):
        if getattr(self, "_ctx", None) is None:
            mod = cls = None
            outers = []
            n = self.fn
            while n is not None:
                if isinstance(n, (ast.FunctionDef, ast.AsyncFunctionDef)):
                    outers.append(n)
                elif isinstance(n, ast.ClassDef) and cls is None:
                    cls = n
                elif isinstance(n, ast.Module):
                    mod = n
                n = getattr(n, "_parent", None)
            self._ctx = (mod, cls, outers, getattr(mod, "_splice", None) if mod is not None else None)
        return self._ctx

    def _splice_target(self, s: ast.stmt):
        if not SPLICE or self.depth >= 3:
            return None
        if isinstance(s, (ast.Assign, ast.AnnAssign, ast.Return, ast.Expr)) and isinstance(getattr(s, "value", None), ast.Call):
            call = s.value
        else:
            return None
        mod, cls, outers, reg = self._context()
        if not reg:
            return None
        f = call.func
        name = f.id if isinstance(f, ast.Name) else (f.attr if isinstance(f, ast.Attribute) else None)
        cands = reg.get(name)
        if not cands:
            return None
        if any(isinstance(a, ast.Starred) for a in call.args) or any(k.arg is None for k in call.keywords):
            return None
        pick = None
        recv = None
        if isinstance(f, ast.Name):
            nested = [c for c in cands if c["outer"] is not None and any(c["outer"] is o for o in outers)]
            local = [c for c in cands if c["outer"] is None and c["cls"] is None and c["module"] is mod]
            anywhere = [c for c in cands if c["outer"] is None and c["cls"] is None]
            pick = nested[0] if len(nested) == 1 else (local[0] if len(local) == 1 and not nested else (anywhere[0] if len(anywhere) == 1 and not nested and not local else None))
        elif isinstance(f, ast.Attribute):
            v = f.value
            if isinstance(v, ast.Name) and v.id in ("self", "cls") and cls is not None:
                ms = [c for c in cands if c["cls"] == cls.name and c["module"] is mod]
                pick = ms[0] if len(ms) == 1 else None
                recv = v
            elif isinstance(v, ast.Name) and v.id[:1].isupper():
                ms = [c for c in cands if c["cls"] == v.id]
                pick = ms[0] if len(ms) == 1 else None
                recv = v
            elif isinstance(v, ast.Name):
                ms = [c for c in cands if c["cls"] is None and c["outer"] is None]
                # module alias (`ops.helper(...)`): only when nothing in scope binds that name as a value
                pick = ms[0] if len(ms) == 1 and v.id in reg.get("$modules", ()) else None
        if pick is None or pick["node"] is self.fn or any(pick["node"] is o for o in outers):
            return None
        d = pick["node"]
        a = d.args
        if a.vararg or a.kwarg or a.posonlyargs:
            return None
        params = [x.arg for x in a.args]
        binding = {}
        if pick["cls"] is not None and not pick["static"]:
            if not params or recv is None:
                return None
            binding[params[0]] = recv if not pick["classmethod"] or recv.id != "self" else ast.Attribute(value=recv, attr="__class__", ctx=ast.Load())
            params = params[1:]
        if len(call.args) > len(params):
            return None
        for pn, av in zip(params, call.args):
            binding[pn] = av
        kwonly = [x.arg for x in a.kwonlyargs]
        for k in call.keywords:
            if (k.arg not in params and k.arg not in kwonly) or k.arg in binding:
                return None
            binding[k.arg] = k.value
        defaults = dict(zip(params[len(params) - len(a.defaults):], a.defaults)) if a.defaults else {}
        for kn, kd in zip(kwonly, a.kw_defaults):
            if kd is not None:
                defaults[kn] = kd
        for pn in params + kwonly:
            if pn not in binding:
                if pn not in defaults:
                    return None
                binding[pn] = defaults[pn]
        return d, binding

    def _splice(self, s: ast.stmt, sp, live: List[_State]) -> List[_State]:
        d, raw_binding = sp
        key = (id(d), "splice")
        if key not in _CACHE:
            pe = PathEnumerator(d, None, self.max_paths)
            pe.depth = self.depth + 1
            _CACHE[key] = pe.run()
        callee = _CACHE[key]
        nxt: List[_State] = []
        for st in live:
            st.stmts.append(s)
            # arguments are evaluated in the caller, before the body runs
            for a in list(s.value.args) + [k.value for k in s.value.keywords]:
                st.events.extend(_events_of(a, st.env, s))
            B = {k: subst(v, st.env) for k, v in raw_binding.items()}
            for q in callee:
                st2 = st.fork()
                for c in q.conds:
                    st2.conds.append(Cond(c.raw, subst(c.test, B) if c.test is not None else None, c.pol))
                for e in q.events:
                    st2.events.append(Event(e.raw, subst(e.call, B), s, e.deferred, e.name))
                for w in q.stores:
                    st2.stores.append(Store(w.raw, subst(w.target, B), subst(w.value, B) if w.value is not None else None, s))
                if len(st2.conds) > 400:
                    raise AnalysisError("path condition explosion while splicing a helper")
                if q.kind == "raise":
                    self._emit("raise", s, subst(q.value, B) if q.value is not None else None, st2)
                    continue
                val = subst(q.value, B) if q.value is not None else ast.copy_location(ast.Constant(value=None), s)
                if isinstance(s, ast.Return):
                    self._emit("return", s, val, st2)
                    continue
                if isinstance(s, ast.Assign):
                    for t in s.targets:
                        self._bind(st2, t, val, s)
                elif isinstance(s, ast.AnnAssign):
                    self._bind(st2, s.target, val, s)
                nxt.append(st2)
            if len(nxt) > self.max_paths:
                raise AnalysisError(f"path explosion in function at line {getattr(self.fn, 'lineno', '?')}")
        return nxt

    # -- statements
    def _block(self, stmts: Sequence[ast.stmt], live: List[_State]) -> List[_State]:
        """States whose `brk` is set left a loop iteration early (break/continue): they skip the
        remaining statements up to the end of the enclosing loop body, where `brk` is cleared."""
        parked: List[_State] = []
        for s in stmts:
            if not live:
                break
            res = self._stmt(s, live)
            live = []
            for st in res:
                (parked if st.brk is not None else live).append(st)
            if len(live) + len(parked) > self.max_paths:
                raise AnalysisError(f"path explosion in function at line {getattr(self.fn, 'lineno', '?')}")
        return live + parked

    def _stmt(self, s: ast.stmt, live: List[_State]) -> List[_State]:
        nxt: List[_State] = []
        if isinstance(s, ast.Return):
            for st in live:
                st.stmts.append(s)
                if s.value is not None:
                    st.events.extend(_events_of(s.value, st.env, s))
                self._emit("return", s, subst(s.value, st.env) if s.value is not None else None, st)
            return []
        if isinstance(s, ast.Raise):
            for st in live:
                st.stmts.append(s)
                if s.exc is not None:
                    st.events.extend(_events_of(s.exc, st.env, s))
                self._emit("raise", s, subst(s.exc, st.env) if s.exc is not None else None, st)
            return []
        if isinstance(s, ast.If):
            # `if H(..):` / `if not H(..):` with H a new function: the helper's paths are spliced in and its result is what is tested
            t = s.test
            neg = 0
            while isinstance(t, ast.UnaryOp) and isinstance(t.op, ast.Not):
                t = t.operand
                neg += 1
            if isinstance(t, ast.Call) and not getattr(s, "_spliced", False):
                tmp = f"$test@{s.lineno}"
                syn_assign = ast.copy_location(ast.Assign(targets=[ast.Name(id=tmp, ctx=ast.Store())], value=t), s)
                sp = self._splice_target(syn_assign)
                if sp is not None:
                    after = self._splice(syn_assign, sp, live)
                    test2: ast.AST = ast.copy_location(ast.Name(id=tmp, ctx=ast.Load()), s)
                    for _ in range(neg):
                        test2 = ast.copy_location(ast.UnaryOp(op=ast.Not(), operand=test2), s)
                    if2 = ast.copy_location(ast.If(test=test2, body=s.body, orelse=s.orelse), s)
                    if2._spliced = True
                    return self._stmt(if2, after)
            for st in live:
                st.stmts.append(s)
                st.events.extend(_events_of(s.test, st.env, s))
                test = subst(s.test, st.env)
                known = _const_truth(test)
                if known is None:
                    known = _decided(st.conds, test)
                if known is not True:
                    b = st.fork()
                    b.conds.append(Cond(s.test, test, False))
                if known is not False:
                    a = st.fork()
                    a.conds.append(Cond(s.test, test, True))
                    nxt += self._block(s.body, [a])
                if known is not True:
                    nxt += self._block(s.orelse, [b]) if s.orelse else [b]
            return nxt
        if isinstance(s, (ast.For, ast.AsyncFor)):
            for st in live:
                st.stmts.append(s)
                st.events.extend(_events_of(s.iter, st.env, s))
                it = subst(s.iter, st.env)
                skip = st.fork()
                skip.conds.append(Cond(s, None, "skip"))
                once = st.fork()
                once.conds.append(Cond(s, None, "iter"))
                self._bind(once, s.target, syn("$elem", it, at=s), s)
                after = self._block(s.body, [once])
                for x in after:
                    x.brk = None
                tail = [skip] + after
                if s.orelse:
                    tail = self._block(s.orelse, tail)
                nxt += tail
            return nxt
        if isinstance(s, ast.While):
            for st in live:
                st.stmts.append(s)
                st.events.extend(_events_of(s.test, st.env, s))
                test = subst(s.test, st.env)
                skip = st.fork()
                skip.conds.append(Cond(s.test, test, False))
                once = st.fork()
                once.conds.append(Cond(s.test, test, True))
                once.conds.append(Cond(s, None, "iter"))
                after = self._block(s.body, [once])
                for x in after:
                    x.brk = None
                nxt += [skip] + after
            return nxt
        if isinstance(s, (ast.Break, ast.Continue)):
            for st in live:
                st.stmts.append(s)
                st.conds.append(Cond(s, None, "break" if isinstance(s, ast.Break) else "continue"))
                st.brk = s  # control leaves the (single modelled) iteration
            return live
        if isinstance(s, ast.Try) or s.__class__.__name__ == "TryStar":
            for st in live:
                st.stmts.append(s)
                body_live = self._block(s.body, [st.fork()])
                if s.orelse:
                    body_live = self._block(s.orelse, body_live)
                outs = list(body_live)
                for h in s.handlers:
                    hs = st.fork()
                    hs.conds.append(Cond(h, None, "except"))
                    if h.name:
                        hs.env[h.name] = ast.copy_location(ast.Name(id=f"$exc@{h.lineno}", ctx=ast.Load()), h)
                    outs += self._block(h.body, [hs])
                if s.finalbody:
                    outs = self._block(s.finalbody, outs)
                nxt += outs
            return nxt
        if isinstance(s, (ast.With, ast.AsyncWith)):
            for st in live:
                st.stmts.append(s)
                for item in s.items:
                    st.events.extend(_events_of(item.context_expr, st.env, s))
                    if item.optional_vars is not None:
                        self._bind(st, item.optional_vars, syn("$with", subst(item.context_expr, st.env), at=s), s)
                nxt += self._block(s.body, [st])
            return nxt
        if isinstance(s, (ast.FunctionDef, ast.AsyncFunctionDef)):
            for st in live:
                st.stmts.append(s)
                st.closures[s.name] = dict(st.env)
                st.env.pop(s.name, None)
            return live
        if isinstance(s, ast.ClassDef):
            for st in live:
                st.stmts.append(s)
                st.env.pop(s.name, None)
            return live
        if s.__class__.__name__ == "Match":
            # each case is a branch under an opaque condition (the pattern); names a pattern captures are bound to an opaque projection of the
            # subject. Without an irrefutable last case, control may also fall through. (The loader's canonicalisation turns the simple
            # forms into if / elif before this is reached; what arrives here has captures or sub-patterns.)
            for st in live:
                st.stmts.append(s)
                st.events.extend(_events_of(s.subject, st.env, s))
                subj = subst(s.subject, st.env)
                irrefutable = False
                for c in s.cases:
                    b = st.fork()
                    b.conds.append(Cond(c.pattern, None, "case"))
                    for x in ast.walk(c.pattern):
                        nm = getattr(x, "name", None)
                        if isinstance(nm, str):
                            b.env[nm] = syn("$match", subj, at=s)
                        for nm2 in (getattr(x, "rest", None),):
                            if isinstance(nm2, str):
                                b.env[nm2] = syn("$match", subj, at=s)
                    if c.guard is not None:
                        b.events.extend(_events_of(c.guard, b.env, s))
                        b.conds.append(Cond(c.guard, subst(c.guard, b.env), True))
                    nxt += self._block(c.body, [b])
                    if c.guard is None and isinstance(c.pattern, ast.MatchAs) and c.pattern.pattern is None:
                        irrefutable = True
                if not irrefutable:
                    f = st.fork()
                    f.conds.append(Cond(s, None, "skip"))
                    nxt.append(f)
            return nxt
        # a call of a NEW function (one the pinned tree does not have) as the whole value of a statement: its paths are spliced in,
        # so that "these lines were moved into a helper / the function was split in two" reaches the rules as the same paths
        sp = self._splice_target(s)
        if sp is not None:
            return self._splice(s, sp, live)
        # simple statements
        for st in live:
            st.stmts.append(s)
            if isinstance(s, ast.Assign):
                st.events.extend(_events_of(s.value, st.env, s))
                v = subst(s.value, st.env)
                for t in s.targets:
                    if not isinstance(t, ast.Name):
                        st.events.extend(_events_of(t, st.env, s))
                    self._bind(st, t, v, s)
            elif isinstance(s, ast.AnnAssign):
                if s.value is not None:
                    st.events.extend(_events_of(s.value, st.env, s))
                    self._bind(st, s.target, subst(s.value, st.env), s)
            elif isinstance(s, ast.AugAssign):
                st.events.extend(_events_of(s.value, st.env, s))
                v = subst(s.value, st.env)
                if isinstance(s.target, ast.Name):
                    old = st.env.get(s.target.id, ast.copy_location(ast.Name(id=s.target.id, ctx=ast.Load()), s))
                    st.env[s.target.id] = ast.copy_location(ast.BinOp(left=old, op=s.op, right=v), s)
                else:
                    st.stores.append(Store(s.target, subst(s.target, st.env), v, s))
            elif isinstance(s, ast.Expr):
                st.events.extend(_events_of(s.value, st.env, s))
            elif isinstance(s, ast.Assert):
                st.events.extend(_events_of(s.test, st.env, s))
                st.conds.append(Cond(s.test, subst(s.test, st.env), "assert"))  # not a branch: no path is decided by it, no guard established by it
            elif isinstance(s, ast.Delete):
                for t in s.targets:
                    if isinstance(t, ast.Name):
                        st.env.pop(t.id, None)
                    else:
                        st.stores.append(Store(t, subst(t, st.env), None, s))
            # Pass / Import / Global / Nonlocal: nothing
        return live


_CACHE: Dict[Tuple[int, str], List[Path]] = {}
SPLICE = True


def _alias_closure_env(fn_node) -> Dict[str, ast.AST]:
    """Locals of the enclosing function(s) that are plain aliases (a name or an attribute chain: `cfg = env.config.dispatcher`)
    at the point where this nested function is defined. A nested function reads them through its closure; expanding them
    makes 'hoist a repeated lookup into a local' invisible to the rules."""
    out: Dict[str, ast.AST] = {}
    par = getattr(fn_node, "_parent", None)
    while par is not None and not isinstance(par, (ast.FunctionDef, ast.AsyncFunctionDef, ast.Lambda)):
        par = getattr(par, "_parent", None)
    if par is None or isinstance(par, ast.Lambda) or not isinstance(fn_node, (ast.FunctionDef, ast.AsyncFunctionDef)):
        return out
    try:
        env = closure_env(par, fn_node.name)
    except AnalysisError:
        return out

    def alias(e):
        while isinstance(e, ast.Attribute):
            e = e.value
        return isinstance(e, ast.Name)

    own = {a.arg for a in fn_node.args.posonlyargs + fn_node.args.args + fn_node.args.kwonlyargs}
    for k, v in env.items():
        if k not in own and alias(v) and not (isinstance(v, ast.Name) and v.id == k):
            out[k] = v
    return out


def paths(fn_node, init_env: Optional[Dict[str, ast.AST]] = None) -> List[Path]:
    if init_env is None:
        auto = _alias_closure_env(fn_node)
        if auto:
            init_env = auto
    key = (id(fn_node), repr(sorted((init_env or {}).keys())))
    if key not in _CACHE:
        _CACHE[key] = PathEnumerator(fn_node, init_env).run()
    return _CACHE[key]


def closure_env(outer_fn_node, inner_name: str) -> Dict[str, ast.AST]:
    """Symbolic environment of the enclosing function at the point where a nested def appears
    (first path that reaches it)."""
    for p in paths(outer_fn_node):
        if inner_name in p.closures:
            return p.closures[inner_name]
    return {}


# ----------------------------------------------------------------------------- return classification
def classify_result(value: Optional[ast.AST]) -> str:
    """Repository convention for `Tuple[Optional[Exception], Optional[T]]` results.
    'error'  : (X, None) with X not None          'reject' : (None, None)
    'ok'     : (None, x)                           'delegate': a call / projection / other expression
    'none'   : bare return / None
    """
    if value is None or is_none(value):
        return "none"
    if isinstance(value, ast.Tuple) and len(value.elts) == 2:
        a, b = value.elts
        if is_none(a) and is_none(b):
            return "reject"
        if is_none(a):
            return "ok"
        if is_none(b):
            return "error"
        return "pair"
    if isinstance(value, ast.IfExp):
        ka, kb = classify_result(value.body), classify_result(value.orelse)
        return ka if ka == kb else "mixed"
    return "delegate"


def paths_of_block(stmts: Sequence[ast.stmt], init_env: Optional[Dict[str, ast.AST]] = None) -> List[Path]:
    """Paths through a statement list taken in isolation (e.g. one loop iteration): every name that is
    not assigned inside the block stays opaque, so 'derives from the previous value of x' is visible as
    a mention of the name x."""
    fn = ast.FunctionDef(
        name="$block",
        args=ast.arguments(posonlyargs=[], args=[], vararg=None, kwonlyargs=[], kw_defaults=[], kwarg=None, defaults=[]),
        body=list(stmts), decorator_list=[], returns=None, type_comment=None,
    )
    fn.lineno = getattr(stmts[0], "lineno", 0) if stmts else 0
    return PathEnumerator(fn, init_env).run()


def mentions(e: Optional[ast.AST], name: str) -> bool:
    if e is None:
        return False
    return any(isinstance(n, ast.Name) and n.id == name for n in ast.walk(e))


# ----------------------------------------------------------------------------- value comparison modulo if-expression / if-statement
def specialise(e: ast.AST, facts) -> ast.AST:
    """Resolve the conditional expressions of `e` whose test is decided by the path facts."""
    known = {}
    for a, pol in facts:
        known[ast.dump(a)] = pol

    def f(n):
        if isinstance(n, ast.IfExp):
            t = n.test
            d = ast.dump(t)
            if d in known:
                return n.body if known[d] else n.orelse
            if isinstance(t, ast.UnaryOp) and isinstance(t.op, ast.Not) and ast.dump(t.operand) in known:
                return n.orelse if known[ast.dump(t.operand)] else n.body
            ct = _const_truth(t)
            if ct is not None:
                return n.body if ct else n.orelse
        return n

    prev = None
    cur = e
    for _ in range(4):
        cur = rewrite(cur, f)
        d = ast.dump(cur)
        if d == prev:
            break
        prev = d
    return cur


def values_match(ps: Sequence[Path], want) -> bool:
    """Do the return paths `ps` together compute `want` (an expression that may contain conditional expressions)? Each
    path's value must equal `want` specialised by that path's own conditions — so `return a if c else b` and
    `if c: return a / else: return b` (or the assignment forms) are the same thing."""
    if isinstance(want, str):
        try:
            want = ast.parse(want, mode="eval").body
        except SyntaxError:
            # synthetic names ($elem ...) cannot be parsed back: fall back to the text of a single return
            return len(ps) == 1 and dump(ps[0].value) == want
    if not ps:
        return False
    for p in ps:
        facts = p.facts()
        if cdump(specialise(want, facts)) != cdump(specialise(p.value, facts)):
            return False
    return True


# ----------------------------------------------------------------------------- map/filter/comprehension normal form
def canon(e: ast.AST) -> ast.AST:
    """One spelling for element-wise sequence expressions: `map(lambda v: E, XS)` and `filter(lambda v: C, XS)` become
    generator expressions, `list(<genexp>)` becomes a list comprehension, and every comprehension variable is renamed by
    nesting depth (`_0`, `_1`, ...), so `Counter(map(lambda r: r.t, rs))` and `Counter(x.t for x in rs)` read the same."""

    def ren(node: ast.AST, mapping: Dict[str, str]) -> ast.AST:
        def f(n):
            if isinstance(n, ast.Name) and n.id in mapping:
                return ast.copy_location(ast.Name(id=mapping[n.id], ctx=n.ctx), n)
            return n
        return rewrite(node, f)

    def go(n: ast.AST, depth: int) -> ast.AST:
        # children first
        if isinstance(n, ast.Call) and isinstance(n.func, ast.Name) and n.func.id in ("map", "filter") and len(n.args) == 2 \
                and isinstance(n.args[0], ast.Lambda) and len(n.args[0].args.args) == 1 and not n.keywords:
            lam: ast.Lambda = n.args[0]
            v = lam.args.args[0].arg
            tgt = ast.Name(id=v, ctx=ast.Store())
            if n.func.id == "map":
                ge = ast.GeneratorExp(elt=lam.body, generators=[ast.comprehension(target=tgt, iter=n.args[1], ifs=[], is_async=0)])
            else:
                ge = ast.GeneratorExp(elt=ast.Name(id=v, ctx=ast.Load()), generators=[ast.comprehension(target=tgt, iter=n.args[1], ifs=[lam.body], is_async=0)])
            return go(ast.copy_location(ge, n), depth)
        if isinstance(n, ast.Call) and isinstance(n.func, ast.Name) and n.func.id in ("map", "filter") and len(n.args) == 2 \
                and isinstance(n.args[0], (ast.Name, ast.Attribute)) and not n.keywords:
            v = "_m"
            call = ast.Call(func=n.args[0], args=[ast.Name(id=v, ctx=ast.Load())], keywords=[])
            tgt = ast.Name(id=v, ctx=ast.Store())
            if n.func.id == "map":
                ge = ast.GeneratorExp(elt=call, generators=[ast.comprehension(target=tgt, iter=n.args[1], ifs=[], is_async=0)])
            else:
                ge = ast.GeneratorExp(elt=ast.Name(id=v, ctx=ast.Load()), generators=[ast.comprehension(target=tgt, iter=n.args[1], ifs=[call], is_async=0)])
            return go(ast.copy_location(ge, n), depth)
        if isinstance(n, ast.Call) and isinstance(n.func, ast.Name) and n.func.id == "list" and len(n.args) == 1 and not n.keywords:
            inner = go(n.args[0], depth)
            if isinstance(inner, ast.GeneratorExp):
                return ast.copy_location(ast.ListComp(elt=inner.elt, generators=inner.generators), n)
            return ast.copy_location(ast.Call(func=n.func, args=[inner], keywords=[]), n)
        # append-map folds: reduce(lambda acc, x: (*acc, E), XS, INIT) / acc + (E,)  ==  INIT + tuple(E for x in XS)
        if isinstance(n, ast.Call) and (isinstance(n.func, ast.Attribute) and n.func.attr == "reduce" or isinstance(n.func, ast.Name) and n.func.id == "reduce") \
                and len(n.args) == 3 and isinstance(n.args[0], ast.Lambda) and len(n.args[0].args.args) == 2:
            lam = n.args[0]
            a_, x_ = lam.args.args[0].arg, lam.args.args[1].arg
            b = lam.body
            elt = None
            if isinstance(b, ast.Tuple) and len(b.elts) == 2 and isinstance(b.elts[0], ast.Starred) and isinstance(b.elts[0].value, ast.Name) and b.elts[0].value.id == a_:
                elt = b.elts[1]
            elif isinstance(b, ast.BinOp) and isinstance(b.op, ast.Add) and isinstance(b.left, ast.Name) and b.left.id == a_ and isinstance(b.right, ast.Tuple) and len(b.right.elts) == 1:
                elt = b.right.elts[0]
            if elt is not None and not any(isinstance(z, ast.Name) and z.id == a_ for z in ast.walk(elt)):
                ge = ast.GeneratorExp(elt=elt, generators=[ast.comprehension(target=ast.Name(id=x_, ctx=ast.Store()), iter=n.args[1], ifs=[], is_async=0)])
                tup = ast.Call(func=ast.Name(id="tuple", ctx=ast.Load()), args=[ge], keywords=[])
                return go(ast.copy_location(ast.BinOp(left=n.args[2], op=ast.Add(), right=tup), n), depth)
        # (*A, *B) == A + tuple(B)
        if isinstance(n, ast.Tuple) and len(n.elts) == 2 and all(isinstance(z, ast.Starred) for z in n.elts):
            right = n.elts[1].value
            tup = right if isinstance(right, (ast.Tuple,)) else ast.Call(func=ast.Name(id="tuple", ctx=ast.Load()), args=[right], keywords=[])
            return go(ast.copy_location(ast.BinOp(left=n.elts[0].value, op=ast.Add(), right=tup), n), depth)
        if isinstance(n, (ast.GeneratorExp, ast.ListComp, ast.SetComp)) and len(n.generators) == 1 and isinstance(n.generators[0].target, ast.Tuple) \
                and all(isinstance(z, ast.Name) for z in n.generators[0].target.elts):
            # `for a, b in XS` -> one variable with a = v[0], b = v[1]
            g0 = n.generators[0]
            tmp = "_t"
            sub = {z.id: ast.Subscript(value=ast.Name(id=tmp, ctx=ast.Load()), slice=ast.Constant(value=i_), ctx=ast.Load()) for i_, z in enumerate(g0.target.elts)}

            def f2(z):
                if isinstance(z, ast.Name) and isinstance(z.ctx, ast.Load) and z.id in sub:
                    return sub[z.id]
                return z
            n = ast.copy_location(type(n)(elt=rewrite(n.elt, f2), generators=[ast.comprehension(target=ast.Name(id=tmp, ctx=ast.Store()), iter=g0.iter,
                                                                                                   ifs=[rewrite(c, f2) for c in g0.ifs], is_async=g0.is_async)]), n)
        if isinstance(n, (ast.GeneratorExp, ast.ListComp, ast.SetComp)) and len(n.generators) == 1 and isinstance(n.generators[0].target, ast.Name):
            g = n.generators[0]
            new = f"_{depth}"
            m = {g.target.id: new}
            it = go(g.iter, depth)
            # merge a directly nested filter-genexp: (E for v in (w for w in XS if C)) -> (E for v in XS if C[v])
            ifs = [go(ren(c, m), depth + 1) for c in g.ifs]
            if isinstance(it, ast.GeneratorExp) and len(it.generators) == 1 and isinstance(it.elt, ast.Name) and isinstance(it.generators[0].target, ast.Name) \
                    and it.elt.id == it.generators[0].target.id:
                inner_v = it.generators[0].target.id
                ifs = [ren(c, {inner_v: new}) for c in it.generators[0].ifs] + ifs
                it = it.generators[0].iter
            elt = go(ren(n.elt, m), depth + 1)
            comp = ast.comprehension(target=ast.Name(id=new, ctx=ast.Store()), iter=it, ifs=ifs, is_async=g.is_async)
            return ast.copy_location(type(n)(elt=elt, generators=[comp]), n)
        # generic recursion
        changed = False
        kw = {}
        for name, val in ast.iter_fields(n):
            if isinstance(val, list):
                nl = []
                for x in val:
                    y = go(x, depth) if isinstance(x, ast.AST) else x
                    changed = changed or (y is not x)
                    nl.append(y)
                kw[name] = nl
            elif isinstance(val, ast.AST):
                y = go(val, depth)
                changed = changed or (y is not val)
                kw[name] = y
            else:
                kw[name] = val
        if not changed:
            return n
        return ast.copy_location(type(n)(**kw), n)

    return go(e, 0)


def cdump(e) -> str:
    """dump() of the canonical form; accepts source text too."""
    if isinstance(e, str):
        try:
            e = ast.parse(e, mode="eval").body
        except SyntaxError:
            return e
    return dump(canon(e))
