"""./check <property> [--tier quick|thorough] | ./check --replay <file> | ./check all"""
from __future__ import annotations

import argparse
import importlib
import json
import os
import sys
import traceback
import warnings

from . import AnalysisError
from .loader import Repo
from .report import Ctx, finish, VERIF

ALL = [f"C{i:02d}" for i in range(1, 21)]


def run_one(prop: str, tier: str, seed: int, repo_root=None, overlay=None, quiet=False, write=True):
    mod = importlib.import_module(f"hivecheck.props.{prop.lower()}")
    from . import loader as _loader

    _loader.set_inline_for(prop)
    repo = Repo(repo_root, overlay)
    ctx = Ctx(prop, repo, tier, seed, quiet)
    try:
        mod.run(ctx)
    except AnalysisError as e:
        # a violation already found is the more specific answer; otherwise this ends as exit 2
        ctx.soft_fail(str(e))
    ctx.end_of_run()
    return ctx, mod


def main(argv=None) -> int:
    warnings.filterwarnings("ignore", category=SyntaxWarning)
    ap = argparse.ArgumentParser(prog="check")
    ap.add_argument("prop", nargs="?")
    ap.add_argument("--tier", default=os.environ.get("VERIF_TIER", "quick"), choices=["quick", "thorough"])
    ap.add_argument("--replay")
    ap.add_argument("--repo", default=None)
    a = ap.parse_args(argv)
    seed = int(os.environ.get("VERIF_SEED", "0") or 0)
    if a.replay:
        with open(a.replay) as f:
            o = json.load(f)
        prop = o["prop"]
        print(f"replay of {prop}: {o['file']}:{o['line']} {o['function']} [{o['rule']}] {o['instance']}")
        print(f"  recorded reason: {o['why']}")
        print("  re-deriving from the current source:")
        a.prop = prop
    if not a.prop:
        ap.error("property id required")
    props = ALL if a.prop == "all" else [a.prop.upper()]
    rc = 0
    for prop in props:
        try:
            if not os.path.exists(os.path.join(VERIF, "hivecheck", "props", f"{prop.lower()}.py")):
                print(f"ANALYSIS-ERROR property={prop} no check built for this property")
                rc = max(rc, 2)
                continue
            ctx, mod = run_one(prop, a.tier, seed, a.repo)
            st = None
            if a.tier == "thorough" and hasattr(mod, "selftest") and not a.replay:
                from .selftest import run_selftest

                st = run_selftest(prop, mod, ctx)
            r = finish(ctx, mod.EXPLANATION, selftest=st)
            if st is not None and st.get("failed"):
                # the checker's own variants (hand-written, computed, fix-regression, sweep) are strict: a misjudged one means the rule no
                # longer does what DESIGN says and the run ends as exit 2. A stored corpus entry (seeded/ x EXPECTED.json, neutral/) judged
                # differently from its recorded cell is DRIFT: it says how the checker reads another program, not what it found in /repo --
                # it is printed and recorded in the evidence (coverage.selftest.failures), and does not change the verdict on the tree.
                strict = [f for f in st["failures"] if not f.startswith(("seed-", "neutral-"))]
                drift = [f for f in st["failures"] if f.startswith(("seed-", "neutral-"))]
                if drift:
                    print(f"SELFTEST-DRIFT property={prop} {len(drift)} stored change(s) judged differently from the recorded matrix: {drift[:5]}")
                if r == 0 and strict:
                    print(f"ANALYSIS-ERROR property={prop} self-test: {len(strict)} variant(s) misjudged: {strict[:5]}")
                    r = 2
            rc = max(rc, r) if r != 1 else 1 if rc != 1 else 1
            if r == 1:
                rc = 1
        except AnalysisError as e:
            print(f"ANALYSIS-ERROR property={prop} {e}")
            rc = rc if rc == 1 else 2
        except Exception:
            traceback.print_exc()
            print(f"ANALYSIS-ERROR property={prop} internal error (traceback above)")
            rc = rc if rc == 1 else 2
    sys.stdout.flush()
    return rc


if __name__ == "__main__":
    code = main()
    sys.stdout.flush()
    sys.stderr.flush()
    os._exit(code)
