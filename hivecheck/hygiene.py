"""Scope-wide language-level rules, run after every property's own rules on the files that property is about
(its anchor files from properties.jsonl plus the files of every function the run analysed).

PY.late-binding — a closure created inside a loop that reads a variable the loop rebinds, and that outlives its
iteration (stored in a container / attribute / accumulator, yielded, or used after the loop). Python closures capture
variables, not values: every such closure sees the value of the LAST iteration. In a file a property is anchored in this
turns "one function per row / vehicle / fleet" into "the last row's function for everybody", which no per-function rule
of the property can see because each function looks right in isolation. Closures consumed inside their own iteration
(passed to a call that is not a storing method, which is what the repository does today) are not reported, nor are
closures that bind the value through a default argument or functools.partial.
"""
from __future__ import annotations

import ast
import json
import os
from typing import Dict, List, Optional, Set

from . import PKG
from .loader import Func, parent

STORING = {"append", "add", "extend", "insert", "set", "setdefault", "update", "put", "appendleft", "__setitem__", "register", "push"}
LAZY = {"map", "filter", "zip", "enumerate", "chain", "starmap", "takewhile", "dropwhile", "partial", "islice", "iter"}

_ANCHORS: Optional[Dict[str, Set[str]]] = None


def anchors(prop: str) -> Set[str]:
    global _ANCHORS
    if _ANCHORS is None:
        _ANCHORS = {}
        p = os.path.join(os.path.dirname(os.path.dirname(os.path.abspath(__file__))), "properties.jsonl")
        if os.path.exists(p):
            for ln in open(p, encoding="utf-8"):
                ln = ln.strip()
                if not ln:
                    continue
                d = json.loads(ln)
                a = d.get("anchors", {})
                files = set(a.get("files", []))
                for k in ("state", "mechanism"):
                    for e in a.get(k, []) or []:
                        w = e.get("where")
                        if isinstance(w, str) and w.endswith(".py"):
                            files.add(w)
                _ANCHORS[d["id"]] = files
    return _ANCHORS.get(prop, set())


def _assigned_in(loop: ast.AST) -> Set[str]:
    out = set()
    nodes = [loop.target] if isinstance(loop, ast.For) else []
    nodes += loop.body + getattr(loop, "orelse", [])
    for top in nodes:
        for n in ast.walk(top):
            if isinstance(n, ast.Name) and isinstance(n.ctx, ast.Store):
                out.add(n.id)
    return out


def _free_reads(c: ast.AST) -> Set[str]:
    """names a lambda / def reads from its enclosing scope (params, own assignments and default-bound names excluded)"""
    a = c.args
    params = {x.arg for x in a.args + a.kwonlyargs + a.posonlyargs}
    if a.vararg:
        params.add(a.vararg.arg)
    if a.kwarg:
        params.add(a.kwarg.arg)
    body = [c.body] if isinstance(c, ast.Lambda) else c.body
    own = set()
    reads = set()
    for top in body:
        for n in ast.walk(top):
            if isinstance(n, ast.Name):
                if isinstance(n.ctx, ast.Store):
                    own.add(n.id)
                else:
                    reads.add(n.id)
            elif isinstance(n, (ast.FunctionDef, ast.Lambda)) and n is not c:
                pass
    return reads - params - own


def _escape(value: ast.AST, loop: ast.AST, fn_node: ast.AST, outer_names: Set[str], depth: int = 0) -> Optional[str]:
    """How the value of expression node `value` (a closure, or something holding it) outlives the iteration; None if it does not."""
    if depth > 6:
        return None
    p = parent(value)
    if p is None or p is loop:
        return None
    if isinstance(p, (ast.Tuple, ast.List, ast.Set, ast.Dict, ast.BinOp, ast.Starred, ast.IfExp, ast.BoolOp)):
        return _escape(p, loop, fn_node, outer_names, depth + 1)
    if isinstance(p, ast.keyword):
        return _escape_call(parent(p), value, loop, fn_node, outer_names, depth)
    if isinstance(p, ast.Call):
        if p.func is value:
            return None  # called on the spot
        return _escape_call(p, value, loop, fn_node, outer_names, depth)
    if isinstance(p, (ast.Yield, ast.YieldFrom)):
        return "is yielded"
    if isinstance(p, ast.Return):
        return None
    if isinstance(p, (ast.Assign, ast.AnnAssign, ast.AugAssign)):
        targets = p.targets if isinstance(p, ast.Assign) else [p.target]
        for t in targets:
            if isinstance(t, (ast.Subscript, ast.Attribute)):
                return f"is stored in {ast.unparse(t)[:40]}"
            if isinstance(t, ast.Name):
                if t.id in outer_names or isinstance(p, ast.AugAssign):
                    return f"is accumulated in '{t.id}', which lives across iterations"
                r = _name_escapes(t.id, p, loop, fn_node, outer_names, depth + 1)
                if r:
                    return r
            if isinstance(t, (ast.Tuple, ast.List)):
                for nm in [e.id for e in ast.walk(t) if isinstance(e, ast.Name)]:
                    if nm in outer_names:
                        return f"is accumulated in '{nm}', which lives across iterations"
        return None
    return None


def _escape_call(call: ast.AST, value: ast.AST, loop, fn_node, outer_names, depth) -> Optional[str]:
    if not isinstance(call, ast.Call):
        return None
    f = call.func
    nm = f.attr if isinstance(f, ast.Attribute) else (f.id if isinstance(f, ast.Name) else "")
    if isinstance(f, ast.Attribute) and nm in STORING:
        recv = f.value
        base = recv
        while isinstance(base, (ast.Attribute, ast.Subscript)):
            base = base.value
        # x.set(k, fn) on an immutable map returns a new map: follow the result; on a mutable receiver it is stored
        r = _escape(call, loop, fn_node, outer_names, depth + 1)
        if r:
            return r
        if isinstance(base, ast.Name) and (base.id in outer_names or base.id == "self"):
            if isinstance(parent(call), ast.Expr):
                return f"is put into '{ast.unparse(recv)[:40]}' by .{nm}(...)"
        return None
    if nm in LAZY or nm[:1].isupper():
        # a lazy wrapper / an object built around the closure: what happens to THAT value decides
        return _escape(call, loop, fn_node, outer_names, depth + 1)
    return None  # handed to an ordinary call: consumed within the iteration (what the repository does today)


def _name_escapes(name: str, binding: ast.AST, loop, fn_node, outer_names, depth) -> Optional[str]:
    # uses of the name inside the loop
    for n in ast.walk(loop):
        if isinstance(n, ast.Name) and n.id == name and isinstance(n.ctx, ast.Load):
            r = _escape(n, loop, fn_node, outer_names, depth + 1)
            if r:
                return r
    # use after the loop (it then holds the last iteration's closure, reading the last iteration's variables: harmless by itself)
    return None


def late_binding(ctx, files: Set[str]) -> int:
    n_seen = 0
    for rel in sorted(files):
        m = ctx.repo.modules.get(rel)
        if m is None:
            continue
        for fn in m.funcs.values():
            if fn.outer is not None:
                continue  # nested functions are walked from their outermost function
            for loop in ast.walk(fn.node):
                if not isinstance(loop, (ast.For, ast.While)):
                    continue
                assigned = _assigned_in(loop)
                # names bound in the function outside this loop: accumulators
                outer_names = set(fn.params)
                for n in ast.walk(fn.node):
                    if isinstance(n, ast.Name) and isinstance(n.ctx, ast.Store):
                        inside = False
                        q = n
                        while q is not None and q is not fn.node:
                            if q is loop:
                                inside = True
                                break
                            q = parent(q)
                        if not inside:
                            outer_names.add(n.id)
                for c in ast.walk(loop):
                    if not isinstance(c, (ast.Lambda, ast.FunctionDef)):
                        continue
                    # the closure must belong to THIS loop (innermost enclosing loop inside the same function body)
                    q = parent(c)
                    inner = None
                    while q is not None and q is not fn.node:
                        if isinstance(q, (ast.For, ast.While)):
                            inner = q
                            break
                        if isinstance(q, (ast.FunctionDef, ast.Lambda)):
                            inner = q
                            break
                        q = parent(q)
                    if inner is not loop:
                        continue
                    captured = _free_reads(c) & assigned
                    if not captured:
                        continue
                    n_seen += 1
                    if isinstance(c, ast.Lambda):
                        how = _escape(c, loop, fn.node, outer_names)
                    else:
                        how = _name_escapes(c.name, c, loop, fn.node, outer_names, 0)
                    label = "lambda" if isinstance(c, ast.Lambda) else c.name
                    inst = f"closure {label} in a loop of {fn.qualname} reads {sorted(captured)}"
                    if how:
                        ctx.violation("H1", "PY.late-binding", inst, fn, c,
                                      why=f"the closure {how}, so it outlives its iteration, but it reads {sorted(captured)} — variables the loop rebinds: "
                                          f"every closure created by this loop sees the values of the LAST iteration (Python binds closures to variables, not values)",
                                      construct=f"late-binding:{fn.qualname}:{label}:{','.join(sorted(captured))}")
                    else:
                        ctx.ok("H1", "PY.late-binding", inst, fn, c, why="consumed within its own iteration")
    return n_seen


def after_run(ctx) -> None:
    # the files the property is anchored in (properties.jsonl); the files merely consulted by a package-wide analysis are not its business
    files = set(anchors(ctx.prop))
    files = {f for f in files if f.startswith(PKG)}
    try:
        late_binding(ctx, files)
    except Exception as e:  # never let a hygiene rule turn into a verdict by crashing
        ctx.soft_fail(f"hygiene: internal {type(e).__name__}: {e}")
