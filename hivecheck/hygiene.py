"""Scope-wide language-level rules, run after every property's own rules on the files that property is about
(its anchor files from properties.jsonl plus the files of every function the run analysed).

PY.late-binding — a closure created inside a loop that reads a variable the loop rebinds, and that outlives its
iteration (stored in a container / attribute / accumulator, yielded, or used after the loop). Python closures capture
variables, not values: every such closure sees the value of the LAST iteration. In a file a property is anchored in this
turns "one function per row / vehicle / fleet" into "the last row's function for everybody", which no per-function rule
of the property can see because each function looks right in isolation. Closures consumed inside their own iteration
(passed to a call that is not a storing method, which is what the repository does today) are not reported, nor are
closures that bind the value through a default argument or functools.partial.
"""
from __future__ import annotations

import ast
import json
import os
from typing import Dict, List, Optional, Set

from . import PKG
from .loader import Func, parent

STORING = {"append", "add", "extend", "insert", "set", "setdefault", "update", "put", "appendleft", "__setitem__", "register", "push"}
LAZY = {"map", "filter", "zip", "enumerate", "chain", "starmap", "takewhile", "dropwhile", "partial", "islice", "iter"}

_ANCHORS: Optional[Dict[str, Set[str]]] = None
# modules a property's anchored code takes its inputs from (the values it compares against / the functions it is handed): process
# memory there changes what the anchored code sees
EXTRA_SCOPE = {
    "C12": (PKG + "/config/hive_config.py", PKG + "/config/dispatcher_config.py"),
    "C11": (PKG + "/config/hive_config.py", PKG + "/config/sim.py"),
    "C15": (PKG + "/config/hive_config.py", PKG + "/config/sim.py", PKG + "/reporting/reporter.py"),
    "C20": (PKG + "/model/vehicle/schedules/__init__.py", PKG + "/model/vehicle/schedules/schedule.py"),
    "C19": (PKG + "/reporting/reporter.py",),
}


def anchors(prop: str) -> Set[str]:
    global _ANCHORS
    if _ANCHORS is None:
        _ANCHORS = {}
        p = os.path.join(os.path.dirname(os.path.dirname(os.path.abspath(__file__))), "properties.jsonl")
        if os.path.exists(p):
            for ln in open(p, encoding="utf-8"):
                ln = ln.strip()
                if not ln:
                    continue
                d = json.loads(ln)
                a = d.get("anchors", {})
                files = set(a.get("files", []))
                for k in ("state", "mechanism"):
                    for e in a.get(k, []) or []:
                        w = e.get("where")
                        if isinstance(w, str) and w.endswith(".py"):
                            files.add(w)
                _ANCHORS[d["id"]] = files
    return _ANCHORS.get(prop, set())


def _assigned_in(loop: ast.AST) -> Set[str]:
    out = set()
    nodes = [loop.target] if isinstance(loop, ast.For) else []
    nodes += loop.body + getattr(loop, "orelse", [])
    for top in nodes:
        for n in ast.walk(top):
            if isinstance(n, ast.Name) and isinstance(n.ctx, ast.Store):
                out.add(n.id)
    return out


def _free_reads(c: ast.AST) -> Set[str]:
    """names a lambda / def reads from its enclosing scope (params, own assignments and default-bound names excluded)"""
    a = c.args
    params = {x.arg for x in a.args + a.kwonlyargs + a.posonlyargs}
    if a.vararg:
        params.add(a.vararg.arg)
    if a.kwarg:
        params.add(a.kwarg.arg)
    body = [c.body] if isinstance(c, ast.Lambda) else c.body
    own = set()
    reads = set()
    for top in body:
        for n in ast.walk(top):
            if isinstance(n, ast.Name):
                if isinstance(n.ctx, ast.Store):
                    own.add(n.id)
                else:
                    reads.add(n.id)
            elif isinstance(n, (ast.FunctionDef, ast.Lambda)) and n is not c:
                pass
    return reads - params - own


def _escape(value: ast.AST, loop: ast.AST, fn_node: ast.AST, outer_names: Set[str], depth: int = 0) -> Optional[str]:
    """How the value of expression node `value` (a closure, or something holding it) outlives the iteration; None if it does not."""
    if depth > 6:
        return None
    p = parent(value)
    if p is None or p is loop:
        return None
    if isinstance(p, (ast.Tuple, ast.List, ast.Set, ast.Dict, ast.BinOp, ast.Starred, ast.IfExp, ast.BoolOp)):
        return _escape(p, loop, fn_node, outer_names, depth + 1)
    if isinstance(p, ast.keyword):
        return _escape_call(parent(p), value, loop, fn_node, outer_names, depth)
    if isinstance(p, ast.Call):
        if p.func is value:
            return None  # called on the spot
        return _escape_call(p, value, loop, fn_node, outer_names, depth)
    if isinstance(p, (ast.Yield, ast.YieldFrom)):
        return "is yielded"
    if isinstance(p, ast.Return):
        return None
    if isinstance(p, (ast.Assign, ast.AnnAssign, ast.AugAssign)):
        targets = p.targets if isinstance(p, ast.Assign) else [p.target]
        for t in targets:
            if isinstance(t, (ast.Subscript, ast.Attribute)):
                return f"is stored in {ast.unparse(t)[:40]}"
            if isinstance(t, ast.Name):
                if t.id in outer_names or isinstance(p, ast.AugAssign):
                    return f"is accumulated in '{t.id}', which lives across iterations"
                r = _name_escapes(t.id, p, loop, fn_node, outer_names, depth + 1)
                if r:
                    return r
            if isinstance(t, (ast.Tuple, ast.List)):
                for nm in [e.id for e in ast.walk(t) if isinstance(e, ast.Name)]:
                    if nm in outer_names:
                        return f"is accumulated in '{nm}', which lives across iterations"
        return None
    return None


def _escape_call(call: ast.AST, value: ast.AST, loop, fn_node, outer_names, depth) -> Optional[str]:
    if not isinstance(call, ast.Call):
        return None
    f = call.func
    nm = f.attr if isinstance(f, ast.Attribute) else (f.id if isinstance(f, ast.Name) else "")
    if isinstance(f, ast.Attribute) and nm in STORING:
        recv = f.value
        base = recv
        while isinstance(base, (ast.Attribute, ast.Subscript)):
            base = base.value
        # x.set(k, fn) on an immutable map returns a new map: follow the result; on a mutable receiver it is stored
        r = _escape(call, loop, fn_node, outer_names, depth + 1)
        if r:
            return r
        if isinstance(base, ast.Name) and (base.id in outer_names or base.id == "self"):
            if isinstance(parent(call), ast.Expr):
                return f"is put into '{ast.unparse(recv)[:40]}' by .{nm}(...)"
        return None
    if nm in LAZY or nm[:1].isupper():
        # a lazy wrapper / an object built around the closure: what happens to THAT value decides
        return _escape(call, loop, fn_node, outer_names, depth + 1)
    return None  # handed to an ordinary call: consumed within the iteration (what the repository does today)


def _name_escapes(name: str, binding: ast.AST, loop, fn_node, outer_names, depth) -> Optional[str]:
    # uses of the name inside the loop
    for n in ast.walk(loop):
        if isinstance(n, ast.Name) and n.id == name and isinstance(n.ctx, ast.Load):
            r = _escape(n, loop, fn_node, outer_names, depth + 1)
            if r:
                return r
    # use after the loop (it then holds the last iteration's closure, reading the last iteration's variables: harmless by itself)
    return None


def late_binding(ctx, files: Set[str]) -> int:
    n_seen = 0
    for rel in sorted(files):
        m = ctx.repo.modules.get(rel)
        if m is None:
            continue
        for fn in m.funcs.values():
            if fn.outer is not None:
                continue  # nested functions are walked from their outermost function
            for loop in ast.walk(fn.node):
                if not isinstance(loop, (ast.For, ast.While)):
                    continue
                assigned = _assigned_in(loop)
                # names bound in the function outside this loop: accumulators
                outer_names = set(fn.params)
                for n in ast.walk(fn.node):
                    if isinstance(n, ast.Name) and isinstance(n.ctx, ast.Store):
                        inside = False
                        q = n
                        while q is not None and q is not fn.node:
                            if q is loop:
                                inside = True
                                break
                            q = parent(q)
                        if not inside:
                            outer_names.add(n.id)
                for c in ast.walk(loop):
                    if not isinstance(c, (ast.Lambda, ast.FunctionDef)):
                        continue
                    # the closure must belong to THIS loop (innermost enclosing loop inside the same function body)
                    q = parent(c)
                    inner = None
                    while q is not None and q is not fn.node:
                        if isinstance(q, (ast.For, ast.While)):
                            inner = q
                            break
                        if isinstance(q, (ast.FunctionDef, ast.Lambda)):
                            inner = q
                            break
                        q = parent(q)
                    if inner is not loop:
                        continue
                    captured = _free_reads(c) & assigned
                    if not captured:
                        continue
                    n_seen += 1
                    if isinstance(c, ast.Lambda):
                        how = _escape(c, loop, fn.node, outer_names)
                    else:
                        how = _name_escapes(c.name, c, loop, fn.node, outer_names, 0)
                    label = "lambda" if isinstance(c, ast.Lambda) else c.name
                    inst = f"closure {label} in a loop of {fn.qualname} reads {sorted(captured)}"
                    if how:
                        ctx.violation("H1", "PY.late-binding", inst, fn, c,
                                      why=f"the closure {how}, so it outlives its iteration, but it reads {sorted(captured)} — variables the loop rebinds: "
                                          f"every closure created by this loop sees the values of the LAST iteration (Python binds closures to variables, not values)",
                                      construct=f"late-binding:{fn.qualname}:{label}:{','.join(sorted(captured))}")
                    else:
                        ctx.ok("H1", "PY.late-binding", inst, fn, c, why="consumed within its own iteration")
    return n_seen


def after_run(ctx) -> None:
    # the files the property is anchored in (properties.jsonl); the files merely consulted by a package-wide analysis are not its business
    files = set(anchors(ctx.prop))
    files = {f for f in files if f.startswith(PKG)}
    try:
        late_binding(ctx, files)
    except Exception as e:  # never let a hygiene rule turn into a verdict by crashing
        ctx.soft_fail(f"hygiene: internal {type(e).__name__}: {e}")
    # process-lifetime memory: on the anchor files; package-wide for the two properties that quantify over whole processes / repeated steps
    pm_files = set(files) | {f for f in EXTRA_SCOPE.get(ctx.prop, ()) if f in ctx.repo.modules}
    if ctx.prop in ("C01", "C16"):
        pm_files = {rel for rel in ctx.repo.modules if rel.startswith(PKG) and not rel.startswith((PKG + "/resources", PKG + "/app"))}
    try:
        cross_key(ctx, set(files) | {f for f in EXTRA_SCOPE.get(ctx.prop, ()) if f in ctx.repo.modules})
    except Exception as e:
        ctx.soft_fail(f"hygiene: internal {type(e).__name__}: {e}")
    try:
        process_memory(ctx, pm_files, "HO" if ctx.prop == "C01" else ("IM" if ctx.prop == "C16" else "PY"))
    except Exception as e:
        ctx.soft_fail(f"hygiene: internal {type(e).__name__}: {e}")


# ------------------------------------------------------------------------------------------ process-lifetime memory
CACHE_DECORATORS = ("lru_cache", "cache", "cached_property", "functools.lru_cache", "functools.cache", "functools.cached_property", "ft.lru_cache", "ft.cache", "memoize", "memoized")
MUTATORS = {"append", "extend", "insert", "pop", "remove", "clear", "update", "add", "discard", "setdefault", "popitem", "appendleft", "popleft", "__setitem__", "sort", "reverse"}
_IMMUTABLE_CALLS = {"tuple", "frozenset", "str", "int", "float", "bool", "bytes", "Map", "immutables.Map"}


_MUT_CLASS = {}


def _mutable_class(repo, name: str) -> bool:
    """a class of the package whose instances can be changed after construction (not a NamedTuple, an Enum or a frozen dataclass)"""
    key = (id(repo), name)
    if key in _MUT_CLASS:
        return _MUT_CLASS[key]
    res = False
    for rel, m in repo.modules.items():
        for c in m.tree.body:
            if isinstance(c, ast.ClassDef) and c.name == name:
                bases = {ast.unparse(b).split(".")[-1].split("[")[0] for b in c.bases}
                frozen = any(isinstance(d, ast.Call) and ast.unparse(d.func).split(".")[-1] == "dataclass" and any(k.arg == "frozen" and isinstance(k.value, ast.Constant) and k.value.value for k in d.keywords)
                             for d in c.decorator_list)
                res = not (bases & {"NamedTuple", "Enum", "IntEnum", "str", "int", "float", "tuple", "frozenset"}) and not frozen
    _MUT_CLASS[key] = res
    return res


def _mutable_display(v: Optional[ast.AST]) -> bool:
    if isinstance(v, (ast.Dict, ast.List, ast.Set, ast.DictComp, ast.ListComp, ast.SetComp)):
        return True
    if isinstance(v, ast.Call):
        d = ast.unparse(v.func)
        return d.split(".")[-1] in ("dict", "list", "set", "defaultdict", "OrderedDict", "Counter", "deque", "WeakValueDictionary", "WeakKeyDictionary")
    return False


def process_memory(ctx, files: Set[str], rule_prefix: str = "PY") -> int:
    """Memory that outlives a call and is not part of the simulation state — so that what a step / a loader returns depends on what the
    process did before (another scenario, an earlier step of the same state, a roll-back):
      * a module- or class-level mutable container that some function of the module writes to (a memo, a registry filled at run time);
      * a cache decorator (lru_cache, cache, cached_property) on a function whose result is a mutable object that a caller then changes
        (through the result itself or through a shallow copy of it), or on a function of the step path (a memo keyed by less than
        everything the result depends on cannot be told from one that is);
      * a closure that keeps mutable state in its enclosing function's variables (nonlocal rebinding, item / attribute stores, mutating
        calls on a captured container) and escapes that function (returned or stored): a stateful function where a pure one is expected."""
    n = 0
    for rel in sorted(files):
        m = ctx.repo.modules.get(rel)
        if m is None:
            continue
        tree = m.tree
        # ---- module / class level containers written by functions
        level = {}
        for holder in [tree] + [c for c in ast.walk(tree) if isinstance(c, ast.ClassDef)]:
            for st_ in holder.body:
                tg = st_.targets if isinstance(st_, ast.Assign) else ([st_.target] if isinstance(st_, ast.AnnAssign) and st_.value is not None else [])
                for t_ in tg:
                    if isinstance(t_, ast.Name) and _mutable_display(st_.value):
                        level[t_.id] = (st_, holder)
        for fn in m.funcs.values():
            if fn.outer is not None:
                continue
            local_binds = {x.id for x in ast.walk(fn.node) if isinstance(x, ast.Name) and isinstance(x.ctx, ast.Store)} | set(fn.params)
            for node in ast.walk(fn.node):
                tgt = None
                if isinstance(node, ast.Subscript) and isinstance(node.ctx, (ast.Store, ast.Del)):
                    tgt = node.value
                elif isinstance(node, ast.Call) and isinstance(node.func, ast.Attribute) and node.func.attr in MUTATORS:
                    tgt = node.func.value
                elif isinstance(node, ast.AugAssign) and isinstance(node.target, (ast.Subscript, ast.Attribute)):
                    tgt = node.target.value
                if tgt is None:
                    continue
                base_ = tgt
                while isinstance(base_, (ast.Subscript,)):
                    base_ = base_.value
                name = None
                if isinstance(base_, ast.Name) and base_.id in level and base_.id not in local_binds:
                    name = base_.id
                elif isinstance(base_, ast.Attribute) and isinstance(base_.value, ast.Name) and base_.value.id in ("self", "cls") and base_.attr in level \
                        and isinstance(level[base_.attr][1], ast.ClassDef) and fn.cls is not None and fn.cls.name == level[base_.attr][1].name:
                    # class-level container reached through self / cls (one object for every instance)
                    assigned_on_self = any(isinstance(x, ast.Attribute) and isinstance(x.ctx, ast.Store) and x.attr == base_.attr for f2 in m.funcs.values() for x in ast.walk(f2.node))
                    if not assigned_on_self:
                        name = base_.attr
                elif isinstance(base_, ast.Attribute) and isinstance(base_.value, ast.Name) and base_.value.id[:1].isupper() and base_.attr in level:
                    name = base_.attr
                if name is None:
                    continue
                n += 1
                ctx.violation("H2", f"{rule_prefix}.process-memo", f"{fn.qualname} writes to the {'class' if isinstance(level[name][1], ast.ClassDef) else 'module'}-level container {name}", fn, node,
                              why=f"`{name}` lives as long as the process and is written at run time: what this code returns next depends on what ran before in the same process "
                                  f"(another scenario, an earlier step of a kept state), not only on its arguments",
                              construct=f"process-memo:{name}:{fn.qualname}")
        # ---- default arguments: evaluated once, when the function is defined
        for fn in m.funcs.values():
            a = fn.node.args
            pos = a.posonlyargs + a.args
            pairs = list(zip(pos[len(pos) - len(a.defaults):], a.defaults)) + [(k, d) for k, d in zip(a.kwonlyargs, a.kw_defaults) if d is not None]
            for arg, d in pairs:
                kind = None
                if _mutable_display(d):
                    kind = "container"
                elif isinstance(d, ast.Call) and _mutable_class(ctx.repo, ast.unparse(d.func).split(".")[-1]):
                    kind = "object"
                if kind is None:
                    continue
                nm = arg.arg
                used = None
                for x in ast.walk(fn.node):
                    if isinstance(x, ast.Call) and isinstance(x.func, ast.Attribute) and x.func.attr in MUTATORS and isinstance(x.func.value, ast.Name) and x.func.value.id == nm:
                        used = f"changed in place (.{x.func.attr})"
                    elif isinstance(x, (ast.Subscript, ast.Attribute)) and isinstance(x.ctx, (ast.Store, ast.Del)) and isinstance(x.value, ast.Name) and x.value.id == nm:
                        used = "written into"
                    elif isinstance(x, ast.Assign) and isinstance(x.value, ast.Name) and x.value.id == nm and any(isinstance(t, ast.Attribute) for t in x.targets):
                        used = f"kept as `{ast.unparse(x.targets[0])}`"
                    elif isinstance(x, ast.Return) and isinstance(x.value, ast.Name) and x.value.id == nm:
                        used = "returned"
                if used is None:
                    continue
                n += 1
                ctx.violation("H2", f"{rule_prefix}.process-memo", f"{fn.qualname}: the default of `{nm}` is one mutable {kind} for the life of the process", fn, d,
                              why=f"`{nm}={ast.unparse(d)[:40]}` is built once, when the function is defined, and is {used}: every call that relies on the default shares that one {kind}, so a "
                                  f"second run in the same process starts from what the first one left in it",
                              construct=f"shared-default:{fn.qualname}:{nm}")
        # ---- cache decorators
        for fn in m.funcs.values():
            decs = [ast.unparse(d.func if isinstance(d, ast.Call) else d) for d in fn.node.decorator_list]
            if not any(d in CACHE_DECORATORS or d.split(".")[-1] in ("lru_cache", "cache", "cached_property") for d in decs):
                continue
            n += 1
            rets = [r.value for r in ast.walk(fn.node) if isinstance(r, ast.Return) and r.value is not None]
            immutable = bool(rets) and all(isinstance(r, (ast.Constant, ast.Tuple, ast.JoinedStr)) or (isinstance(r, ast.Call) and ast.unparse(r.func) in _IMMUTABLE_CALLS) for r in rets)
            mutated_by = _callers_mutating_result(ctx, fn) if not immutable else None
            if immutable:
                ctx.ok("H2", f"{rule_prefix}.process-memo", f"{fn.qualname}: cached, result immutable", fn, fn.node)
            elif mutated_by:
                ctx.violation("H2", f"{rule_prefix}.process-memo", f"{fn.qualname} is cached and its (mutable) result is changed by {mutated_by[0]}", fn, fn.node,
                              why=f"the cached object is shared by every caller for the life of the process; {mutated_by[0]} writes into it ({mutated_by[1]}), so later callers — another "
                                  f"scenario loaded in the same process — start from what an earlier one left behind",
                              construct=f"cached-mutable:{fn.qualname}")
            else:
                ctx.violation("H2", f"{rule_prefix}.process-memo", f"{fn.qualname} is cached for the life of the process and returns a mutable / unknown object", fn, fn.node,
                              why="a process-lifetime cache of something that is not provably immutable: whoever changes the result changes it for every later caller; and a result that "
                                  "depends on anything outside the arguments (files, configuration) is frozen at its first value",
                              construct=f"cached-unknown:{fn.qualname}")
        # ---- stateful closures
        for fn in m.funcs.values():
            if fn.outer is None:
                continue
            outer = fn.outer
            outer_locals = ({x.id for x in ast.walk(outer.node) if isinstance(x, ast.Name) and isinstance(x.ctx, ast.Store) and _owner_is(x, outer.node)} | set(outer.params))
            own = {x.id for x in ast.walk(fn.node) if isinstance(x, ast.Name) and isinstance(x.ctx, ast.Store)} | set(fn.params)
            nonlocals = {nm for x in ast.walk(fn.node) if isinstance(x, ast.Nonlocal) for nm in x.names}
            own -= nonlocals
            how = None
            if nonlocals & outer_locals:
                how = f"rebinds {sorted(nonlocals & outer_locals)} of {outer.qualname} (nonlocal)"
            for node in ast.walk(fn.node):
                tgt = None
                if isinstance(node, ast.Subscript) and isinstance(node.ctx, (ast.Store, ast.Del)):
                    tgt = node.value
                elif isinstance(node, ast.Attribute) and isinstance(node.ctx, ast.Store):
                    tgt = node.value
                elif isinstance(node, ast.Call) and isinstance(node.func, ast.Attribute) and node.func.attr in MUTATORS:
                    tgt = node.func.value
                elif isinstance(node, ast.AugAssign) and isinstance(node.target, (ast.Subscript, ast.Attribute)):
                    tgt = node.target.value
                if tgt is None:
                    continue
                while isinstance(tgt, (ast.Subscript, ast.Attribute)):
                    tgt = tgt.value
                if isinstance(tgt, ast.Name) and tgt.id in outer_locals and tgt.id not in own and tgt.id not in ("self", "cls"):
                    # only containers the enclosing function built itself count (a parameter handed in is the caller's business)
                    bind = [x for x in ast.walk(outer.node) if isinstance(x, (ast.Assign, ast.AnnAssign)) and any(isinstance(t, ast.Name) and t.id == tgt.id for t in (x.targets if isinstance(x, ast.Assign) else [x.target]))]
                    if bind and all(_mutable_display(getattr(b, "value", None)) or (isinstance(getattr(b, "value", None), ast.Call) and ast.unparse(b.value.func)[:1].isupper()) for b in bind):
                        how = how or f"keeps state in `{tgt.id}`, a container of {outer.qualname}"
            if not how:
                continue
            # does the closure escape its enclosing function?
            escapes = False
            for x in ast.walk(outer.node):
                if isinstance(x, ast.Name) and x.id == fn.name and isinstance(x.ctx, ast.Load):
                    p = parent(x)
                    if isinstance(p, ast.Call) and p.func is x:
                        continue
                    escapes = True
            if not escapes:
                continue
            n += 1
            ctx.violation("H2", f"{rule_prefix}.stateful-closure", f"{fn.qualname} {how} and is handed out by {outer.qualname}", fn, fn.node,
                          why="the function remembers something between calls that is not in the simulation state: called again for an earlier (or the same) state — a kept state stepped "
                              "twice, a roll-back, a second run in the same environment — it answers from what it saw before, not from its arguments",
                          construct=f"stateful-closure:{fn.qualname}")
    return n


def cross_key(ctx, files: Set[str]) -> int:
    """`d["a"] = conv(d["b"])` with a != b: a setting normalised in place from ANOTHER key of the same table (the copy / paste slip of a
    coercion block). A value derived from several keys, or from the same key, is not this."""
    n = 0
    for rel in sorted(files):
        m = ctx.repo.modules.get(rel)
        if m is None:
            continue
        for fn in m.funcs.values():
            # only inside a normalisation block: at least two other statements of the shape d["k"] = conv(d["k"]) in the same function
            own_key = 0
            for st0 in ast.walk(fn.node):
                if isinstance(st0, ast.Assign) and len(st0.targets) == 1 and isinstance(st0.targets[0], ast.Subscript) and isinstance(st0.targets[0].slice, ast.Constant) \
                        and isinstance(st0.targets[0].value, ast.Name):
                    k0 = st0.targets[0].slice.value
                    rk = {x.slice.value for x in ast.walk(st0.value) if isinstance(x, ast.Subscript) and isinstance(x.value, ast.Name) and x.value.id == st0.targets[0].value.id
                          and isinstance(x.slice, ast.Constant)}
                    if rk == {k0}:
                        own_key += 1
            if own_key < 2:
                continue
            for st_ in ast.walk(fn.node):
                if not (isinstance(st_, ast.Assign) and len(st_.targets) == 1 and isinstance(st_.targets[0], ast.Subscript)):
                    continue
                t = st_.targets[0]
                if not (isinstance(t.slice, ast.Constant) and isinstance(t.slice.value, str) and isinstance(t.value, ast.Name)):
                    continue
                reads = [x for x in ast.walk(st_.value) if isinstance(x, ast.Subscript) and isinstance(x.value, ast.Name) and x.value.id == t.value.id
                         and isinstance(x.slice, ast.Constant) and isinstance(x.slice.value, str)]
                gets = [x for x in ast.walk(st_.value) if isinstance(x, ast.Call) and isinstance(x.func, ast.Attribute) and x.func.attr == "get" and isinstance(x.func.value, ast.Name)
                        and x.func.value.id == t.value.id and x.args and isinstance(x.args[0], ast.Constant)]
                keys = {x.slice.value for x in reads} | {x.args[0].value for x in gets}
                if len(keys) != 1:
                    continue
                n += 1
                other = next(iter(keys))
                v = st_.value
                simple = isinstance(v, ast.Subscript) or (isinstance(v, ast.Call) and isinstance(v.func, ast.Name) and v.func.id in ("float", "int", "str", "bool", "tuple", "list", "Path") and len(v.args) == 1)
                if other != t.slice.value and simple:
                    ctx.violation("H3", "PY.cross-key", f"{fn.qualname}: {t.value.id}[{t.slice.value!r}] is set from {t.value.id}[{other!r}]", fn, st_,
                                  why=f"the setting `{t.slice.value}` is overwritten with the (converted) value of `{other}`: whatever the input said for `{t.slice.value}` is lost and the code "
                                      f"that compares against it uses the other setting's value",
                                  construct=f"cross-key:{fn.qualname}:{t.slice.value}<-{other}")
                else:
                    ctx.ok("H3", "PY.cross-key", f"{fn.qualname}: {t.value.id}[{t.slice.value!r}] normalised from its own key", fn, st_)
    return n


def _owner_is(name_node: ast.AST, fn_node: ast.AST) -> bool:
    p = parent(name_node)
    while p is not None:
        if isinstance(p, (ast.FunctionDef, ast.AsyncFunctionDef, ast.Lambda)):
            return p is fn_node
        p = parent(p)
    return False


def _callers_mutating_result(ctx, cached_fn):
    """(caller qualname, what) when some function mutates the cached function's result, directly or through a shallow copy's elements."""
    name = cached_fn.name
    for m in ctx.repo.modules.values():
        if not m.relpath.startswith(PKG):
            continue
        for fn in m.funcs.values():
            if fn is cached_fn or fn.outer is not None:
                continue
            deep, shallow = set(), set()
            changed = True
            def is_call(e):
                return isinstance(e, ast.Call) and (getattr(e.func, "id", None) == name or getattr(e.func, "attr", None) == name)
            def tainted(e):
                if is_call(e):
                    return True
                if isinstance(e, ast.Name):
                    return e.id in deep
                if isinstance(e, (ast.Subscript, ast.Attribute)):
                    return tainted(e.value) or (isinstance(e.value, ast.Name) and e.value.id in shallow) or (isinstance(e, ast.Subscript) and _shallow_expr(e.value))
                if isinstance(e, ast.Call) and isinstance(e.func, ast.Attribute) and e.func.attr in ("get", "values", "items", "setdefault"):
                    return tainted(e.func.value) or (isinstance(e.func.value, ast.Name) and e.func.value.id in shallow)
                return False
            def _shallow_expr(e):
                return isinstance(e, ast.Call) and ((isinstance(e.func, ast.Name) and e.func.id in ("dict", "list", "set") and e.args and tainted(e.args[0])) or
                                                    (isinstance(e.func, ast.Attribute) and e.func.attr == "copy" and tainted(e.func.value)))
            while changed:
                changed = False
                for n_ in ast.walk(fn.node):
                    if isinstance(n_, (ast.Assign, ast.AnnAssign)) and getattr(n_, "value", None) is not None:
                        tg = n_.targets if isinstance(n_, ast.Assign) else [n_.target]
                        for t in tg:
                            if isinstance(t, ast.Name):
                                if _shallow_expr(n_.value) and t.id not in shallow:
                                    shallow.add(t.id); changed = True
                                elif tainted(n_.value) and not _shallow_expr(n_.value) and t.id not in deep:
                                    deep.add(t.id); changed = True
                    elif isinstance(n_, (ast.For, ast.comprehension)) and (tainted(n_.iter)):
                        for y in ast.walk(n_.target):
                            if isinstance(y, ast.Name) and y.id not in deep:
                                deep.add(y.id); changed = True
            if not deep and not shallow and not any(is_call(x) for x in ast.walk(fn.node)):
                continue
            for n_ in ast.walk(fn.node):
                tgt = None
                if isinstance(n_, ast.Subscript) and isinstance(n_.ctx, (ast.Store, ast.Del)):
                    tgt = n_.value
                elif isinstance(n_, ast.Call) and isinstance(n_.func, ast.Attribute) and n_.func.attr in MUTATORS:
                    tgt = n_.func.value
                elif isinstance(n_, ast.AugAssign) and isinstance(n_.target, (ast.Subscript, ast.Attribute)):
                    tgt = n_.target.value
                if tgt is not None and tainted(tgt) and not (isinstance(tgt, ast.Name) and tgt.id in shallow):
                    return (fn.qualname, f"`{ast.unparse(n_)[:60]}`")
    return None
