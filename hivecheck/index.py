"""Whole-package indexes for the who-may-call / who-may-write rules (WMC)."""
from __future__ import annotations

import ast
from dataclasses import dataclass
from typing import Dict, Iterable, List, Optional, Tuple

from . import PKG
from .loader import Repo, Func, Module, parent


@dataclass
class Site:
    module: Module
    func: Optional[Func]  # enclosing function (None = module / class level)
    node: ast.AST
    kind: str  # call | ref | kwwrite | attrstore | ctor | setattr

    @property
    def file(self) -> str:
        return self.module.relpath

    @property
    def line(self) -> int:
        return getattr(self.node, "lineno", 0)

    @property
    def qual(self) -> str:
        return self.func.qualname if self.func else "<module>"

    def label(self) -> str:
        return f"{self.file}::{self.qual}"


def enclosing_func(node: ast.AST) -> Optional[Func]:
    p = parent(node)
    while p is not None:
        f = getattr(p, "_func", None)
        if f is not None:
            return f
        p = parent(p)
    return None


def _scope_modules(repo: Repo, include_mock: bool = False, include_examples: bool = False) -> Iterable[Module]:
    for rel, m in repo.modules.items():
        if rel.startswith(PKG + "/resources"):
            if include_mock and rel.endswith("mock_lobster.py"):
                yield m
            continue
        if rel.startswith(PKG):
            yield m
        elif include_examples:
            yield m


class Index:
    def __init__(self, repo: Repo):
        self.repo = repo
        self._by_name: Dict[str, List[Site]] = {}
        self._kw: Dict[str, List[Site]] = {}
        self._attrstore: Dict[str, List[Site]] = {}
        self._ctor: Dict[str, List[Site]] = {}
        self._kw_ctor: Dict[str, List[Site]] = {}
        self._built = False

    def _build(self):
        if self._built:
            return
        self._built = True
        for m in _scope_modules(self.repo, include_examples=True):
            for n in ast.walk(m.tree):
                if isinstance(n, ast.Call):
                    f = n.func
                    nm = f.attr if isinstance(f, ast.Attribute) else (f.id if isinstance(f, ast.Name) else None)
                    fn = enclosing_func(n)
                    if nm:
                        self._by_name.setdefault(nm, []).append(Site(m, fn, n, "call"))
                    for kw in n.keywords:
                        if kw.arg:
                            self._kw.setdefault(kw.arg, []).append(Site(m, fn, n, "kwwrite"))
                        elif nm in ("_replace", "replace", "_make"):
                            # x._replace(**computed): the fields written are not visible in the text -> a writer of every field
                            self._kw.setdefault("*", []).append(Site(m, fn, n, "kwwrite-dynamic"))
                        elif nm and nm[:1].isupper():
                            self._kw_ctor.setdefault(nm, []).append(Site(m, fn, n, "kwwrite-dynamic"))
                    if nm in ("setattr", "__setattr__") and len(n.args) >= 2:
                        a = n.args[-2] if nm == "__setattr__" or len(n.args) == 3 else None
                        if isinstance(a, ast.Constant) and isinstance(a.value, str):
                            self._attrstore.setdefault(a.value, []).append(Site(m, fn, n, "setattr"))
                        else:
                            self._attrstore.setdefault("*", []).append(Site(m, fn, n, "setattr"))
                elif isinstance(n, ast.Attribute):
                    if isinstance(n.ctx, (ast.Store, ast.Del)):
                        self._attrstore.setdefault(n.attr, []).append(Site(m, enclosing_func(n), n, "attrstore"))
                    else:
                        p = parent(n)
                        if not (isinstance(p, ast.Call) and p.func is n):
                            self._by_name.setdefault(n.attr, []).append(Site(m, enclosing_func(n), n, "ref"))
                elif isinstance(n, ast.Name) and isinstance(n.ctx, ast.Load):
                    p = parent(n)
                    if not (isinstance(p, ast.Call) and p.func is n):
                        self._by_name.setdefault(n.id, []).append(Site(m, enclosing_func(n), n, "nameref"))

    def calls(self, name: str, refs: bool = True) -> List[Site]:
        """Call sites `x.name(...)` / `name(...)`; with refs=True also bare attribute references
        `x.name` (a method value that may be called later)."""
        self._build()
        out = []
        for s in self._by_name.get(name, []):
            if s.kind == "call" or (refs and s.kind == "ref"):
                out.append(s)
        return out

    def name_refs(self, name: str) -> List[Site]:
        self._build()
        return [s for s in self._by_name.get(name, []) if s.kind == "nameref"]

    def kw_writes(self, field: str) -> List[Site]:
        """keyword writes `field=` in calls, plus the dynamic writers: `_replace(**d)` (any field) and `Cls(**d)` when the
        class declares the field"""
        self._build()
        out = list(self._kw.get(field, []))
        for site in self._kw.get("*", []):
            # a computed field name has to come from somewhere: the dynamic write counts for `field` only if that name occurs as a
            # string constant in the module of the site (a table of field names, a literal key)
            consts = getattr(site.module, "_str_consts", None)
            if consts is None:
                consts = {n.value for n in ast.walk(site.module.tree) if isinstance(n, ast.Constant) and isinstance(n.value, str)}
                try:
                    site.module._str_consts = consts
                except Exception:
                    pass
            if field in consts:
                out.append(site)
        for cname, sites in self._kw_ctor.items():
            for m in self.repo.modules.values():
                c = m.classes.get(cname)
                if c is not None and field in c.field_annotations():
                    out += sites
                    break
        return out

    def attr_stores(self, field: str) -> List[Site]:
        self._build()
        return list(self._attrstore.get(field, [])) + list(self._attrstore.get("*", []))


_IDX: Dict[int, Index] = {}


def index(repo: Repo) -> Index:
    if id(repo) not in _IDX:
        _IDX[id(repo)] = Index(repo)
    return _IDX[id(repo)]


def in_pkg(site: Site) -> bool:
    return site.file.startswith(PKG)
