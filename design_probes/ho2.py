import os, sys, ast, re, pathlib
os.chdir('/repo')
from mypy import build
from mypy.options import Options
from mypy.find_sources import create_source_list
from mypy.config_parser import parse_config_file
from mypy.nodes import Node, Expression
opts = Options(); parse_config_file(opts, lambda: None, '/repo/mypy.ini')
opts.preserve_asts=True; opts.export_types=True; opts.incremental=False; opts.cache_dir=os.devnull
res = build.build(create_source_list(['nrel'], opts), opts)
types = res.types
SKIP=('node','info','type','unanalyzed_type','type_annotation','defn','original_def','func_def')
def children(n):
    for a in dir(type(n)):
        if a.startswith('_') or a in SKIP: continue
        try: v = getattr(n, a)
        except Exception: continue
        if isinstance(v, Node): yield v
        elif isinstance(v, (list, tuple)):
            for x in v:
                if isinstance(x, Node): yield x
                elif isinstance(x, (list,tuple)):
                    for y in x:
                        if isinstance(y, Node): yield y
def walk(root):
    seen=set(); st=[root]
    while st:
        n=st.pop()
        if id(n) in seen: continue
        seen.add(id(n)); yield n
        st.extend(children(n))
HASHY = re.compile(r'^(builtins\.)?(set|frozenset)\[|^immutables\.(_map\.)?Map\[|^immutables\._protocols\.Map(Keys|Values|Items)\[|AbstractSet')
EXT = {'h3.k_ring','h3.hex_ring','h3.h3_to_children','h3.polyfill','h3.compact','h3.uncompact'}
SANITIZE = {'len','set','frozenset','sorted','any','all','immutables.Map','Map','dict','bool','isinstance','str','repr','sum?'}
ORDERED_WRAPS = {'tuple','list','iter','enumerate','zip','map','filter','reversed'}
rows=[]
for mod, f in sorted(res.files.items()):
    if not mod.startswith('nrel.hive') or 'resources' in mod: continue
    idx={}
    for n in walk(f):
        if isinstance(n, Expression) and n in types:
            idx[(n.line,n.column,getattr(n,'end_line',None),getattr(n,'end_column',None))]=str(types[n])
    src=open(f.path).read(); tree=ast.parse(src)
    parents={}
    for p in ast.walk(tree):
        for c in ast.iter_child_nodes(p): parents[c]=p
    def T(e): return idx.get((e.lineno,e.col_offset,e.end_lineno,e.end_col_offset))
    def hashy(n):
        t=T(n)
        return bool(t and HASHY.search(t)) or (isinstance(n, ast.Call) and ast.unparse(n.func) in EXT)
    def enclosing_fn(n):
        q=[]
        while n in parents:
            n=parents[n]
            if isinstance(n,(ast.FunctionDef,ast.ClassDef,ast.Lambda)): q.append(getattr(n,'name','<lambda>'))
        return '.'.join(reversed(q))
    for n in ast.walk(tree):
        if not isinstance(n, ast.expr) or not hashy(n): continue
        p=parents.get(n); use=None; verdict=None
        if isinstance(p, ast.For) and p.iter is n: use='for'
        elif isinstance(p, ast.comprehension) and p.iter is n:
            gp=parents[p]; use='comp:'+type(gp).__name__
            if isinstance(gp,(ast.DictComp,ast.SetComp)): verdict='AUTO keyed/unordered result'
            else:
                ggp=parents.get(gp)
                if isinstance(ggp, ast.Call) and ast.unparse(ggp.func) in ('any','all','set','frozenset','min','max','sum','len'):
                    verdict='AUTO consumed by '+ast.unparse(ggp.func)
                elif isinstance(ggp, ast.Call) and ast.unparse(ggp.func)=='sorted':
                    verdict='SORTED key='+ (ast.unparse([k.value for k in ggp.keywords if k.arg=='key'][0]) if any(k.arg=='key' for k in ggp.keywords) else 'None')
                elif isinstance(ggp, ast.BinOp):
                    gg=parents.get(ggp)
                    if isinstance(gg, ast.Call) and ast.unparse(gg.func)=='frozenset': verdict='AUTO consumed by frozenset'
        elif isinstance(p, ast.Call) and n in p.args:
            fn=ast.unparse(p.func)
            if fn in SANITIZE or fn.endswith(('.union','.difference','.intersection','.get','.set')): continue
            i=p.args.index(n)
            if fn in ('ft.reduce','reduce') and i==1: use='reduce'
            elif fn in ORDERED_WRAPS: use='wrap:'+fn
            elif fn in ('min','max','next'): use=fn
            else: continue   # passing a map as argument: handled by callee summaries
        elif isinstance(p, ast.Starred): use='star'
        elif isinstance(p, ast.Assign) and isinstance(p.targets[0], (ast.Tuple,ast.List)) and p.value is n: use='unpack'
        elif isinstance(p, ast.Subscript) and p.value is n and (T(n) or '').startswith(('builtins.list','builtins.tuple')): use='index'
        else: continue
        if use=='for':
            # classify body
            body=p.body
            kinds=set()
            tgt_names={x.id for x in ast.walk(p.target) if isinstance(x, ast.Name)}
            for s in body:
                for x in ast.walk(s):
                    if isinstance(x,(ast.Return,ast.Break)): kinds.add('EARLY-EXIT')
                    if isinstance(x, ast.Assign):
                        for tg in x.targets:
                            if isinstance(tg, ast.Subscript):
                                keynames={y.id for y in ast.walk(tg.slice) if isinstance(y, ast.Name)}
                                kinds.add('keyed-write' if keynames & tgt_names or isinstance(tg.slice, ast.JoinedStr) else 'unkeyed-item-write')
                            elif isinstance(tg, ast.Name): kinds.add('local')
                            else: kinds.add('attr-write')
                    if isinstance(x, ast.Call):
                        fnn=ast.unparse(x.func)
                        if fnn.endswith(('.write',)) or fnn.startswith('log.'): kinds.add('log-write')
                        elif fnn.endswith('.update') or fnn.endswith('.set'):
                            kinds.add('map-update')
                        elif fnn.endswith('.append'): kinds.add('append')
            verdict='BODY '+','.join(sorted(kinds))
        rows.append((str(pathlib.Path(f.path)), n.lineno, enclosing_fn(n), use, ast.unparse(n)[:50], verdict))
for r in rows: print("%s:%d  %-45s %-14s %-50s %s" % r)
print(len(rows))
sys.stdout.flush(); os._exit(0)
