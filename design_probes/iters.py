import ast, sys, pathlib
root = pathlib.Path('/repo/nrel/hive')
def src(n): return ast.unparse(n)
for p in sorted(root.rglob('*.py')):
    if 'resources' in p.parts: continue
    t = ast.parse(p.read_text())
    for n in ast.walk(t):
        its = []
        if isinstance(n, (ast.For,)): its.append(n.iter)
        if isinstance(n, (ast.ListComp, ast.SetComp, ast.DictComp, ast.GeneratorExp)):
            its += [g.iter for g in n.generators]
        if isinstance(n, ast.Call):
            f = src(n.func)
            if f in ('ft.reduce','reduce','functools.reduce') and len(n.args)>=2: its.append(n.args[1])
            if f in ('map','filter') and len(n.args)>=2: its += n.args[1:]
            if f in ('tuple','list','min','max','sum','any','all','next','iter','zip','enumerate','sorted') and n.args: 
                pass
        for it in its:
            s = src(it)
            if any(k in s for k in ('.keys()','.values()','.items()','set(','frozenset','k_ring','fleet_ids','memberships','on_shift','h3_to_children','polyfill','.union(','.difference(','.intersection(')) :
                print(f"{p.relative_to('/repo')}:{it.lineno}: {s[:110]}")
