import os, sys, time, collections
os.chdir('/repo')
from mypy import build
from mypy.options import Options
from mypy.find_sources import create_source_list
from mypy.config_parser import parse_config_file
from mypy.nodes import Node, Expression, CallExpr, MemberExpr, NameExpr, RefExpr, FuncDef, Decorator, TypeInfo, Var, LambdaExpr, SuperExpr
from mypy.types import Instance, CallableType, TypeType, UnionType, AnyType, TupleType, get_proper_type, Overloaded, NoneType
opts = Options(); parse_config_file(opts, lambda: None, '/repo/mypy.ini')
opts.preserve_asts=True; opts.export_types=True; opts.incremental=False; opts.cache_dir=os.devnull
res = build.build(create_source_list(['nrel'], opts), opts)
types = res.types
def children(n):
    for a in dir(type(n)):
        if a.startswith('_') or a in ('node','info','type','unanalyzed_type','type_annotation','defn','original_def','func_def') : continue
        try: v = getattr(n, a)
        except Exception: continue
        if isinstance(v, Node): yield v
        elif isinstance(v, (list, tuple)):
            for x in v:
                if isinstance(x, Node): yield x
                elif isinstance(x, (list,tuple)):
                    for y in x:
                        if isinstance(y, Node): yield y
def walk(root):
    seen=set(); st=[root]
    while st:
        n=st.pop()
        if id(n) in seen: continue
        seen.add(id(n)); yield n
        st.extend(children(n))
def resolve(call):
    c = call.callee
    if isinstance(c, RefExpr) and not isinstance(c, MemberExpr):
        if c.fullname: return c.fullname
    if isinstance(c, MemberExpr):
        if c.fullname: return c.fullname
        t = types.get(c.expr)
        t = get_proper_type(t) if t is not None else None
        def from_inst(t):
            if isinstance(t, TupleType): t = t.partial_fallback
            if isinstance(t, Instance):
                m = t.type.get(c.name)
                if m is not None and m.node is not None:
                    return getattr(m.node,'fullname',None) or f"{t.type.fullname}.{c.name}"
                return f"{t.type.fullname}.{c.name}?"
            if isinstance(t, TypeType) and isinstance(get_proper_type(t.item), Instance):
                return from_inst(get_proper_type(t.item))
            if isinstance(t, CallableType) and t.is_type_obj():
                return from_inst(get_proper_type(t.ret_type))
            return None
        if isinstance(t, UnionType):
            rs = [from_inst(get_proper_type(i)) for i in t.items if not isinstance(get_proper_type(i), NoneType)]
            rs = [r for r in rs if r]
            if rs: return '|'.join(sorted(set(rs)))
        r = from_inst(t)
        if r: return r
        if isinstance(t, AnyType): return 'ANY.'+c.name
    t = types.get(c)
    return None
tot=0; un=0; anyc=0
unres=collections.Counter()
import ast
astcalls=0
for mod,f in res.files.items():
    if not mod.startswith('nrel.hive') or 'resources' in mod: continue
    astcalls += sum(isinstance(x, ast.Call) for x in ast.walk(ast.parse(open(f.path).read())))
    for n in walk(f):
        if isinstance(n, CallExpr):
            tot+=1
            r = resolve(n)
            if r is None:
                un+=1
                unres[(mod.split('.')[-1], n.line)]+=1
            elif r.startswith('ANY.'): anyc+=1
print("ast calls", astcalls); print("calls", tot, "unresolved", un, "any-receiver", anyc)
print(list(unres.items())[:40])
sys.stdout.flush(); os._exit(0)
