import ast, pathlib
MUT = {'append','extend','insert','pop','remove','clear','update','setdefault','add','discard','sort','reverse','popitem','write','writerows','writeheader'}
for p in sorted(pathlib.Path('/repo/nrel/hive').rglob('*.py')):
    if 'resources' in p.parts: continue
    t = ast.parse(p.read_text())
    for fn in [n for n in ast.walk(t) if isinstance(n, ast.FunctionDef)]:
        # local names defined by literal/constructor in this function
        local_new=set()
        for n in ast.walk(fn):
            if isinstance(n, ast.Assign) and isinstance(n.value,(ast.List,ast.Dict,ast.Set,ast.ListComp,ast.DictComp,ast.SetComp,ast.Call)):
                for tg in n.targets:
                    if isinstance(tg, ast.Name): local_new.add(tg.id)
            if isinstance(n, ast.AnnAssign) and isinstance(n.target, ast.Name): local_new.add(n.target.id)
        for n in ast.walk(fn):
            hit=None
            if isinstance(n,(ast.Assign,ast.AugAssign,ast.AnnAssign)):
                tgs = n.targets if isinstance(n, ast.Assign) else [n.target]
                for tg in tgs:
                    if isinstance(tg, ast.Attribute) and not (fn.name=='__init__' and isinstance(tg.value, ast.Name) and tg.value.id=='self'):
                        hit = 'ATTR '+ast.unparse(tg)
                    if isinstance(tg, ast.Subscript):
                        base = tg.value
                        while isinstance(base,(ast.Subscript,ast.Attribute)): base = base.value
                        if not (isinstance(base, ast.Name) and base.id in local_new and not isinstance(tg.value, ast.Attribute)):
                            hit = 'ITEM '+ast.unparse(tg)
            if isinstance(n, ast.Call) and isinstance(n.func, ast.Attribute) and n.func.attr in MUT:
                r = n.func.value
                if not (isinstance(r, ast.Name) and r.id in local_new):
                    hit = 'CALL '+ast.unparse(n.func)
            if hit: print(f"{p.relative_to('/repo')}:{n.lineno}: {fn.name}: {hit}")
