import ast, sys, pathlib
# guarded-return table prototype: for each return in function, path condition
def paths(stmts, cond):
    """yield (return_node, cond_list); returns fallthrough cond list or None if all paths returned"""
    cur = [cond]  # list of active path conditions (list of (test,pol))
    out = []
    for s in stmts:
        if not cur: break
        if isinstance(s, ast.Return):
            for c in cur: out.append((s, c))
            cur = []
        elif isinstance(s, ast.Raise):
            for c in cur: out.append((s, c))
            cur = []
        elif isinstance(s, ast.If):
            nxt = []
            for c in cur:
                o1, f1 = paths(s.body, c + [(s.test, True)])
                o2, f2 = paths(s.orelse, c + [(s.test, False)])
                out += o1 + o2
                nxt += f1 + f2
            cur = nxt
        elif isinstance(s, (ast.For, ast.While)):
            nxt=[]
            for c in cur:
                o1, f1 = paths(s.body, c + [(s, 'loop')])
                out += o1
                nxt.append(c)
            cur = nxt
        elif isinstance(s, ast.Try):
            nxt=[]
            for c in cur:
                o1,f1 = paths(s.body, c)
                out+=o1; nxt+=f1
                for h in s.handlers:
                    o2,f2 = paths(h.body, c+[(h,'except')]); out+=o2; nxt+=f2
            cur=nxt
        elif isinstance(s, ast.With):
            nxt=[]
            for c in cur:
                o1,f1=paths(s.body,c); out+=o1; nxt+=f1
            cur=nxt
        else:
            pass
    return out, cur
def fmt(c):
    r=[]
    for t,p in c:
        if isinstance(t, ast.expr):
            s=ast.unparse(t); s = s if len(s)<70 else s[:67]+'...'
            r.append(('' if p else 'NOT ')+s)
        else: r.append(str(p))
    return ' & '.join(r)
root = pathlib.Path('/repo/nrel/hive/state/vehicle_state')
for p in sorted(root.glob('*.py')):
    t = ast.parse(p.read_text())
    for cls in [n for n in t.body if isinstance(n, ast.ClassDef)]:
        for fn in [n for n in cls.body if isinstance(n, ast.FunctionDef) and n.name in sys.argv[1:]]:
            out, fall = paths(fn.body, [])
            print(f"== {p.name} {cls.name}.{fn.name}: {len(out)} returns, fallthrough={len(fall)}")
            for r,c in out:
                v = ast.unparse(r.value)[:60] if isinstance(r, ast.Return) and r.value else type(r).__name__
                if 'apply_new_vehicle_state' in v or '.enter(' in v or v in ('result','new_state','enter_result') or (sys.argv[1]=='exit' and 'None, None' not in v and 'Error' not in v and 'error' not in v and 'Exception' not in v and 'response' not in v):
                    print("   SUCCESS", r.lineno, v, "<=", fmt(c))
