import ast, sys, pathlib
RES = {'checkout_stall':('stall','A'),'return_stall':('stall','R'),'checkout_charger':('plug','A'),'return_charger':('plug','R'),
       'enqueue_for_charger':('queue','A'),'dequeue_for_charger':('queue','R'),'assign_dispatched_vehicle':('assign','A'),
       'unassign_dispatched_vehicle':('assign','R'),'modify_vehicle_assignment':('assign','?'),'pick_up_trip':('pickup','A')}
def calls(node):
    out=[]
    for n in ast.walk(node):
        if isinstance(n, ast.Call):
            f=n.func
            name = f.attr if isinstance(f, ast.Attribute) else (f.id if isinstance(f, ast.Name) else None)
            if name in RES:
                k,d = RES[name]
                if name=='modify_vehicle_assignment':
                    d = 'R' if any(kw.arg=='unassign' for kw in n.keywords) else 'A'
                out.append((k,d))
    return out
def paths(stmts, cond, done):
    cur=[(cond,done)]; out=[]
    for s in stmts:
        if not cur: break
        if isinstance(s,(ast.Return,ast.Raise)):
            for c,d in cur: out.append((s,c,d+calls(s)))
            cur=[]
        elif isinstance(s, ast.If):
            nxt=[]
            for c,d in cur:
                d2=d+calls(s.test)
                o1,f1=paths(s.body,c+[(s.test,True)],d2); o2,f2=paths(s.orelse,c+[(s.test,False)],d2)
                out+=o1+o2; nxt+=f1+f2
            cur=nxt
        elif isinstance(s,(ast.For,ast.While)):
            nxt=[]
            for c,d in cur:
                o1,f1=paths(s.body,c+[(s,'loop')],d); out+=o1; nxt.append((c,d))
            cur=nxt
        else:
            cur=[(c,d+calls(s)) for c,d in cur]
    return out,cur
def is_success(r, meth):
    if not isinstance(r, ast.Return) or r.value is None: return False
    v=ast.unparse(r.value)
    if v.replace(' ','') in ('None,None','(None,None)'): return False
    if isinstance(r.value, ast.Tuple) and not (isinstance(r.value.elts[0], ast.Constant) and r.value.elts[0].value is None): return False
    bad=('Error','Exception','response','error,','err1,','err2,','err3,','charger_err,')
    if any(v.startswith(b) or (b in v and 'None' in v and v.endswith('None')) for b in bad): return False
    return True
root=pathlib.Path(sys.argv[1])
for p in sorted(root.glob('*.py')):
    t=ast.parse(p.read_text())
    for cls in [n for n in t.body if isinstance(n, ast.ClassDef)]:
        res={}
        for fn in [n for n in cls.body if isinstance(n, ast.FunctionDef) and n.name in ('enter','exit')]:
            out,_=paths(fn.body,[],[])
            succ=[(r,c,d) for r,c,d in out if is_success(r,fn.name)]
            sets=[tuple(sorted(set(d))) for r,c,d in succ]
            res[fn.name]=sets
        if res: print(f"{cls.name:22s} enter:{res.get('enter')}  exit:{res.get('exit')}")
