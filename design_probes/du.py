import ast, pathlib
# straight-line dead store detector (within a single statement list): name assigned from a Call, then re-assigned later in same block before any Load of it
def names_loaded(node):
    return {n.id for n in ast.walk(node) if isinstance(n, ast.Name) and isinstance(n.ctx, ast.Load)}
def scan_block(stmts, path, fn):
    for i, s in enumerate(stmts):
        if isinstance(s, ast.Assign) and len(s.targets)==1 and isinstance(s.targets[0], ast.Name) and isinstance(s.value, ast.Call):
            name = s.targets[0].id
            for t in stmts[i+1:]:
                loads = names_loaded(t)
                if name in loads: break
                if isinstance(t, ast.Assign) and any(isinstance(x, ast.Name) and x.id==name for x in t.targets):
                    print(f"{path}:{s.lineno}: DEAD STORE in {fn}: {ast.unparse(s)[:90]}  (overwritten line {t.lineno})")
                    break
                if isinstance(t, (ast.If, ast.For, ast.While, ast.Try, ast.With, ast.Return)):
                    break
        if isinstance(s, ast.Expr) and isinstance(s.value, ast.Call):
            f = ast.unparse(s.value.func)
            if any(k in f for k in ('modify_','tick_','_replace','replace','send_payment','receive_payment','.set','.delete','add_to_','remove_from','assign_','checkout','return_','set_membership','add_membership','update_route')) and not f.startswith(('log.','self.log','random.')):
                print(f"{path}:{s.lineno}: DISCARDED RESULT in {fn}: {ast.unparse(s)[:90]}")
    for s in stmts:
        for fld in ('body','orelse','finalbody'):
            b = getattr(s, fld, None)
            if isinstance(b, list) and b and isinstance(b[0], ast.stmt) and not isinstance(s,(ast.FunctionDef,ast.ClassDef)): scan_block(b, path, fn)
        if isinstance(s, ast.Try):
            for h in s.handlers: scan_block(h.body, path, fn)
for p in sorted(pathlib.Path('/repo/nrel/hive').rglob('*.py')):
    if 'resources' in p.parts: continue
    t = ast.parse(p.read_text())
    for n in ast.walk(t):
        if isinstance(n, (ast.FunctionDef,)):
            scan_block(n.body, p.relative_to('/repo'), n.name)
