import os, sys, time
t0=time.time()
os.chdir('/repo')
from mypy import build
from mypy.options import Options
from mypy.find_sources import create_source_list
from mypy.config_parser import parse_config_file
from mypy.nodes import Node, Expression, MypyFile
opts = Options()
parse_config_file(opts, lambda: None, '/repo/mypy.ini')
opts.preserve_asts = True; opts.export_types = True; opts.incremental = False; opts.cache_dir = os.devnull
srcs = create_source_list(['nrel'], opts)
res = build.build(srcs, opts)
print("built", round(time.time()-t0,1))
types = res.types
def children(n):
    for a in dir(type(n)):
        if a.startswith('_'): continue
        try: v = getattr(n, a)
        except Exception: continue
        if isinstance(v, Node): yield v
        elif isinstance(v, (list, tuple)):
            for x in v:
                if isinstance(x, Node): yield x
                elif isinstance(x, (list,tuple)):
                    for y in x:
                        if isinstance(y, Node): yield y
def walk(root):
    seen=set(); st=[root]
    while st:
        n=st.pop()
        if id(n) in seen: continue
        seen.add(id(n)); yield n
        st.extend(children(n))
import collections
def index(modname):
    f = res.files[modname]
    idx = {}
    for n in walk(f):
        if isinstance(n, Expression) and n in types:
            idx[(n.line, n.column, getattr(n,'end_line',None), getattr(n,'end_column',None))] = str(types[n])
    return idx
import ast
for mod, path in [('nrel.hive.dispatcher.instruction_generator.assignment_ops','nrel/hive/dispatcher/instruction_generator/assignment_ops.py'),
                  ('nrel.hive.state.simulation_state.update.step_simulation_ops','nrel/hive/state/simulation_state/update/step_simulation_ops.py'),
                  ('nrel.hive.dispatcher.instruction_generator.dispatcher','nrel/hive/dispatcher/instruction_generator/dispatcher.py'),
                  ('nrel.hive.util.h3_ops','nrel/hive/util/h3_ops.py'),
                  ('nrel.hive.state.simulation_state.update.charging_price_update','nrel/hive/state/simulation_state/update/charging_price_update.py')]:
    idx = index(mod)
    tree = ast.parse(open(path).read())
    tot=hit=0
    for n in ast.walk(tree):
        its=[]
        if isinstance(n, ast.For): its.append(n.iter)
        if isinstance(n,(ast.ListComp,ast.GeneratorExp,ast.SetComp,ast.DictComp)): its += [g.iter for g in n.generators]
        if isinstance(n, ast.Call) and ast.unparse(n.func) in ('ft.reduce',) and len(n.args)>1: its.append(n.args[1])
        for it in its:
            k=(it.lineno,it.col_offset,it.end_lineno,it.end_col_offset)
            tot+=1
            t = idx.get(k)
            if t: hit+=1
            print(mod.split('.')[-1], it.lineno, ast.unparse(it)[:60], '=>', t)
    print('resolved', hit, '/', tot)
sys.stdout.flush(); os._exit(0)
